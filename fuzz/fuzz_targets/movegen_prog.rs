#![no_main]
use chess_verif::gen::{self, Tape};
use chess_verif::{engine, fuzzing, props};
use libfuzzer_sys::fuzz_target;

fuzz_target!(|data: &[u8]| {
    let raw = fuzzing::raw_hist_of(data);
    fuzzing::run("C14", |ctx| {
        let (_, start) = match gen::start_of(&raw) {
            Some(x) => x,
            None => return Ok(()),
        };
        let mut t = Tape::new(&raw.choices);
        let mut p = start.clone();
        let mut moves = vec![];
        for _ in 0..(raw.setup[95] % 10) {
            let l = p.legal_moves();
            if l.is_empty() {
                break;
            }
            let m = l[t.below(l.len())];
            p = p.apply(m);
            moves.push(m);
        }
        let legal = p.legal_moves();
        let ops = props::c14::gen_program(&p, &legal, &mut t);
        engine::run_one(ctx, |ctx| props::c14::check_program(ctx, &start, &moves, &ops))
    });
});
