#![no_main]
//! bytes -> raw history -> walk; the per-position check of the property named by VERIF_FUZZ_PROP
use chess_verif::engine::{self, Ctx, Violation};
use chess_verif::gen::{self, MoveSource, Policy, Step, Tape};
use chess_verif::{fuzzing, props};
use libfuzzer_sys::fuzz_target;

fuzz_target!(|data: &[u8]| {
    let prop = std::env::var("VERIF_FUZZ_PROP").unwrap_or_else(|_| "C01".into());
    let raw = fuzzing::raw_hist_of(data);
    fuzzing::run(&prop, |ctx| {
        let (_, start) = match gen::start_of(&raw) {
            Some(x) => x,
            None => return Ok(()),
        };
        let mut src = MoveSource::Tape { policy: Policy::from_index(raw.policy as usize), tape: Tape::new(&raw.choices) };
        let p = prop.clone();
        let visit = move |ctx: &mut Ctx, s: &Step| -> Result<(), Violation> {
            match p.as_str() {
                "C01" => props::c01::check_position(ctx, s, 512),
                "C02" => props::c02::check_step(ctx, s),
                "C03" => props::c03::check_step(ctx, s),
                "C04" => props::c04::check_step(ctx, s),
                "C06" => props::c06::check_step(ctx, s),
                "C09" => props::c09::check_step(ctx, s),
                "C17" => props::c17::check_step(ctx, s),
                "C18" => props::c18::check_step(ctx, s),
                _ => Ok(()),
            }
        };
        engine::run_one(ctx, |ctx| gen::walk(ctx, &start, &mut src, 60, &visit).map(|_| ()))
    });
});
