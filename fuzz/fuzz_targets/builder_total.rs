#![no_main]
use chess_verif::{engine, fuzzing, props};
use libfuzzer_sys::fuzz_target;

fuzz_target!(|data: &[u8]| {
    let tape = fuzzing::tape_of(data);
    fuzzing::run("C07", |ctx| engine::run_one(ctx, |ctx| props::c07::check_tape(ctx, &tape)));
});
