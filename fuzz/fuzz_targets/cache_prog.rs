#![no_main]
//! bytes -> CacheTable program; AddressSanitizer is the monitor for out-of-bounds accesses
use chess_verif::props::c19::{check_program, Op, Program};
use chess_verif::{engine, fuzzing};
use libfuzzer_sys::fuzz_target;

fuzz_target!(|data: &[u8]| {
    if data.len() < 6 {
        return;
    }
    let log2 = data[0] % 13;
    let ty = data[1] % 3;
    let default = u32::from_le_bytes([data[2], data[3], data[4], data[5]]);
    let size = 1u64 << log2;
    let mut ops = vec![];
    for c in data[6..].chunks_exact(14) {
        let r = u64::from_le_bytes([c[0], c[1], c[2], c[3], c[4], c[5], c[6], c[7]]);
        let v = u32::from_le_bytes([c[8], c[9], c[10], c[11]]);
        let slot = r % size.min(4);
        let h = match c[12] % 8 {
            0 => slot,
            1 => slot | (r >> 8) << log2,
            2 => slot | ((r >> 32) << 32).max(1 << 32),
            3 => 0,
            4 => u64::MAX,
            5 => slot | 1u64 << 63,
            6 => (r % 3) * size + slot,
            _ => r,
        };
        ops.push(match c[13] % 3 {
            0 => Op::Add(h, v % 8),
            1 => Op::ReplaceIf(h, v % 8, c[13] >> 2, (v >> 8) % 8),
            _ => Op::Get(h),
        });
    }
    let p = Program { log2, ty, default, ops };
    fuzzing::run("C19", |ctx| engine::run_one(ctx, |ctx| check_program(ctx, &p)));
});
