#![no_main]
//! bytes -> raw history -> Game operation program (C10) or long reversible history (C11)
use chess_verif::gamemodel::gen_program;
use chess_verif::gen::{self, MoveSource, Policy, Tape};
use chess_verif::{engine, fuzzing, props};
use libfuzzer_sys::fuzz_target;

fuzz_target!(|data: &[u8]| {
    let prop = std::env::var("VERIF_FUZZ_PROP").unwrap_or_else(|_| "C10".into());
    let raw = fuzzing::raw_hist_of(data);
    fuzzing::run(&prop, |ctx| {
        let (_, start) = match gen::start_of(&raw) {
            Some(x) => x,
            None => return Ok(()),
        };
        if prop == "C11" {
            let pol = [Policy::ReversibleNoThird, Policy::SeekRepetition, Policy::Reversible];
            let mut src = MoveSource::Tape { policy: pol[raw.policy as usize % 3], tape: Tape::new(&raw.choices) };
            engine::run_one(ctx, |ctx| props::c11::check_history(ctx, &start, &mut src, 260))
        } else {
            let pol = [Policy::Special, Policy::Uniform, Policy::SeekRepetition, Policy::Endgame];
            let mut t = Tape::new(&raw.choices);
            let ops = gen_program(&start, pol[raw.policy as usize % 4], &mut t, 120, 6);
            engine::run_one(ctx, |ctx| props::c10::check_program(ctx, &start, &ops))
        }
    });
});
