#![no_main]
//! bytes -> (curated position, a few reference plies, text) -> universal SAN oracle
use chess_verif::engine::{self, Ctx, Violation};
use chess_verif::gen::{self, MoveSource, Step};
use chess_verif::{fuzzing, props};
use libfuzzer_sys::fuzz_target;

fuzz_target!(|data: &[u8]| {
    if data.len() < 3 {
        return;
    }
    let cur = gen::curated();
    let start = cur[(u16::from_le_bytes([data[0], data[1]]) as usize * cur.len()) >> 16].pos.clone();
    let k = (data[2] % 9) as usize;
    let mut p = start.clone();
    let mut moves = vec![];
    let mut i = 3;
    for _ in 0..k {
        if i + 1 >= data.len() {
            break;
        }
        let l = p.legal_moves();
        if l.is_empty() {
            break;
        }
        let m = l[(u16::from_le_bytes([data[i], data[i + 1]]) as usize * l.len()) >> 16];
        i += 2;
        p = p.apply(m);
        moves.push(m);
    }
    let text = String::from_utf8_lossy(&data[i.min(data.len())..]).to_string();
    fuzzing::run("C12", |ctx| {
        let n = moves.len();
        let visit = |ctx: &mut Ctx, s: &Step| -> Result<(), Violation> {
            if s.moves.len() != n {
                return Ok(());
            }
            props::c12::check_any_text(ctx, s, &text)
        };
        let mut src = MoveSource::Explicit { moves: &moves, i: 0 };
        engine::run_one(ctx, |ctx| gen::walk(ctx, &start, &mut src, n, &visit).map(|_| ()))
    });
});
