#![no_main]
use chess_verif::{engine, fuzzing, props};
use libfuzzer_sys::fuzz_target;

fuzz_target!(|data: &[u8]| {
    let text = String::from_utf8_lossy(data).to_string();
    fuzzing::run("C07", |ctx| engine::run_one(ctx, |ctx| props::c07::check_text(ctx, &text, None)));
});
