//! Reference model of `chess::Game` (action log, results, draw claims) and the operation
//! programs that drive C10 / C11.

use crate::gen::{self, Policy, Tape};
use crate::refmodel::*;
use serde_json::{json, Value};
use std::collections::BTreeMap;

#[derive(Clone, Copy, PartialEq, Eq, Debug)]
pub enum Act {
    Move(Mv),
    Offer(Col),
    Accept,
    Declare,
    Resign(Col),
}

#[derive(Clone, Copy, PartialEq, Eq, Debug)]
pub enum Res {
    WhiteCheckmates,
    WhiteResigns,
    BlackCheckmates,
    BlackResigns,
    Stalemate,
    DrawAccepted,
    DrawDeclared,
}

#[derive(Clone, Debug, PartialEq)]
pub enum Op {
    Move(Mv),
    Offer(Col),
    Accept,
    Declare,
    Resign(Col),
}
impl Op {
    pub fn to_json(&self) -> Value {
        match self {
            Op::Move(m) => json!(["move", m.uci()]),
            Op::Offer(c) => json!(["offer_draw", format!("{:?}", c)]),
            Op::Accept => json!(["accept_draw"]),
            Op::Declare => json!(["declare_draw"]),
            Op::Resign(c) => json!(["resign", format!("{:?}", c)]),
        }
    }
    pub fn from_json(v: &Value) -> Option<Op> {
        let a = v.as_array()?;
        let col = |x: &Value| if x.as_str() == Some("W") { Col::W } else { Col::B };
        Some(match a.first()?.as_str()? {
            "move" => Op::Move(Mv::parse_uci(a.get(1)?.as_str()?)?),
            "offer_draw" => Op::Offer(col(a.get(1)?)),
            "accept_draw" => Op::Accept,
            "declare_draw" => Op::Declare,
            "resign" => Op::Resign(col(a.get(1)?)),
            _ => return None,
        })
    }
}

#[derive(Clone, Debug)]
pub struct GameModel {
    pub start: Pos,
    pub pos: Pos,
    pub log: Vec<Act>,
    /// strict identity (placement, side, rights, en-passant state recorded) of every position
    pub keys_strict: Vec<u64>,
    /// FIDE identity (… en-passant only when a capture is actually legal)
    pub keys_fide: Vec<u64>,
    /// consecutive half-moves without pawn move or capture
    pub reversible: u32,
    /// a castling right was lost during the current reversible stretch
    pub rights_lost_in_stretch: bool,
}

pub fn key_strict(p: &Pos) -> u64 {
    gen::rep_key(p)
}
pub fn key_fide(p: &Pos) -> u64 {
    let ep = if p.legal_ep_exists() { p.ep } else { None };
    crate::engine::fp(&(&p.board[..], p.stm, p.castle, ep))
}

impl GameModel {
    pub fn new(start: &Pos) -> GameModel {
        GameModel {
            start: start.clone(),
            pos: start.clone(),
            log: vec![],
            keys_strict: vec![key_strict(start)],
            keys_fide: vec![key_fide(start)],
            reversible: 0,
            rights_lost_in_stretch: false,
        }
    }
    pub fn result(&self) -> Option<Res> {
        match self.pos.status() {
            Status::Checkmate => Some(if self.pos.stm == Col::W { Res::BlackCheckmates } else { Res::WhiteCheckmates }),
            Status::Stalemate => Some(Res::Stalemate),
            Status::Ongoing => match self.log.last() {
                Some(Act::Accept) => Some(Res::DrawAccepted),
                Some(Act::Declare) => Some(Res::DrawDeclared),
                Some(Act::Resign(Col::W)) => Some(Res::WhiteResigns),
                Some(Act::Resign(Col::B)) => Some(Res::BlackResigns),
                _ => None,
            },
        }
    }
    pub fn push_move(&mut self, m: Mv) {
        let irreversible = matches!(self.pos.at(m.from), Some((_, Kind::P))) || self.pos.is_capture(m);
        let n = self.pos.apply(m);
        if irreversible {
            self.reversible = 0;
            self.rights_lost_in_stretch = false;
        } else {
            self.reversible += 1;
            if n.castle != self.pos.castle {
                self.rights_lost_in_stretch = true;
            }
        }
        self.pos = n;
        self.keys_strict.push(key_strict(&self.pos));
        self.keys_fide.push(key_fide(&self.pos));
        self.log.push(Act::Move(m));
    }
    pub fn occurrences(&self, keys: &[u64]) -> usize {
        let last = *keys.last().unwrap();
        keys.iter().filter(|k| **k == last).count()
    }
    /// (claimable under the strict identity, claimable under the FIDE identity)
    pub fn claimable(&self) -> (bool, bool) {
        if self.result().is_some() {
            return (false, false);
        }
        let fifty = self.reversible >= 100;
        (fifty || self.occurrences(&self.keys_strict) >= 3, fifty || self.occurrences(&self.keys_fide) >= 3)
    }
    /// The "only if" condition for accepting a draw.
    pub fn accept_allowed(&self) -> bool {
        let n = self.log.len();
        if n >= 1 {
            if let Act::Offer(_) = self.log[n - 1] {
                return true;
            }
        }
        if n >= 2 {
            if let (Act::Offer(c), Act::Move(_)) = (self.log[n - 2], self.log[n - 1]) {
                // the mover of the last move is the side that is not to move now
                return c == self.pos.stm.other();
            }
        }
        false
    }
    pub fn mover_count(&self) -> usize {
        self.log.iter().filter(|a| matches!(a, Act::Move(_))).count()
    }
}

/// Generate an operation program by running the model (reference only).
pub fn gen_program(start: &Pos, policy: Policy, t: &mut Tape, max_ops: usize, after_result: usize) -> Vec<Op> {
    let mut g = GameModel::new(start);
    let mut ops = vec![];
    let mut counts: BTreeMap<u64, u32> = BTreeMap::new();
    counts.insert(gen::rep_key(start), 1);
    let mut tail = after_result;
    let mut prev_legal: Vec<Mv> = vec![];
    while ops.len() < max_ops && !t.exhausted() {
        let over = g.result().is_some();
        if over {
            if tail == 0 {
                break;
            }
            tail -= 1;
        }
        let legal = g.pos.legal_moves();
        let roll = t.below(100);
        let op = if roll < 58 && !legal.is_empty() {
            Op::Move(gen::choose(policy, t, &g.pos, &legal, &counts))
        } else if roll < 68 {
            // illegal move attempts
            match t.below(6) {
                0 if !prev_legal.is_empty() => Op::Move(prev_legal[t.below(prev_legal.len())]),
                4 | 5 if !legal.is_empty() => {
                    // a legal move with its promotion field altered (dropped, added, or an
                    // impossible promotion piece such as a king or a pawn)
                    let promos: Vec<Mv> = legal.iter().copied().filter(|m| m.promo.is_some()).collect();
                    let m = if !promos.is_empty() && t.chance(3, 4) { promos[t.below(promos.len())] } else { legal[t.below(legal.len())] };
                    let alt = [None, Some(Kind::K), Some(Kind::P), Some(Kind::Q), Some(Kind::N), Some(Kind::R), Some(Kind::B)][t.below(7)];
                    Op::Move(Mv::new(m.from, m.to, alt))
                }
                1 => {
                    let mut f = g.pos.clone();
                    f.stm = f.stm.other();
                    f.ep = None;
                    let o = f.pseudo_moves();
                    if o.is_empty() {
                        Op::Move(Mv::new(t.below(64) as u8, t.below(64) as u8, None))
                    } else {
                        Op::Move(o[t.below(o.len())])
                    }
                }
                2 => {
                    let ill = g.pos.illegal_pseudo_moves();
                    if ill.is_empty() {
                        Op::Move(Mv::new(t.below(64) as u8, t.below(64) as u8, None))
                    } else {
                        Op::Move(ill[t.below(ill.len())])
                    }
                }
                _ => Op::Move(Mv::new(t.below(64) as u8, t.below(64) as u8, [None, Some(Kind::Q), Some(Kind::N)][t.below(3)])),
            }
        } else if roll < 78 {
            Op::Offer(if t.chance(1, 2) { Col::W } else { Col::B })
        } else if roll < 88 {
            Op::Accept
        } else if roll < 91 {
            Op::Resign(if t.chance(1, 2) { Col::W } else { Col::B })
        } else {
            Op::Declare
        };
        // advance the generator's own view of the game (best effort; the check stage keeps its
        // own lock-step model and does not rely on this)
        if !over {
            match &op {
                Op::Move(m) if legal.contains(m) => {
                    prev_legal = legal.clone();
                    g.push_move(*m);
                    *counts.entry(gen::rep_key(&g.pos)).or_insert(0) += 1;
                }
                Op::Move(_) => {}
                Op::Offer(c) => g.log.push(Act::Offer(*c)),
                Op::Accept => {
                    if g.accept_allowed() {
                        g.log.push(Act::Accept)
                    }
                }
                Op::Declare => {
                    if g.claimable().0 {
                        g.log.push(Act::Declare)
                    }
                }
                Op::Resign(c) => g.log.push(Act::Resign(*c)),
            }
        }
        ops.push(op);
    }
    ops
}
