//! Conversions between the reference model and the public API of the `chess` crate, and a
//! snapshot of everything observable about a `chess::Board`.

use crate::refmodel::*;
use chess::{BitBoard, Board, BoardBuilder, CastleRights, ChessMove, Color, File, Piece, Rank, Square};
use std::convert::TryFrom;
use std::str::FromStr;

pub fn sq(s: Sq) -> Square {
    Square::make_square(Rank::from_index((s >> 3) as usize), File::from_index((s & 7) as usize))
}
pub fn rsq(s: Square) -> Sq {
    s.to_index() as Sq
}
pub fn kind(k: Kind) -> Piece {
    match k {
        Kind::P => Piece::Pawn,
        Kind::N => Piece::Knight,
        Kind::B => Piece::Bishop,
        Kind::R => Piece::Rook,
        Kind::Q => Piece::Queen,
        Kind::K => Piece::King,
    }
}
pub fn rkind(p: Piece) -> Kind {
    match p {
        Piece::Pawn => Kind::P,
        Piece::Knight => Kind::N,
        Piece::Bishop => Kind::B,
        Piece::Rook => Kind::R,
        Piece::Queen => Kind::Q,
        Piece::King => Kind::K,
    }
}
pub fn col(c: Col) -> Color {
    match c {
        Col::W => Color::White,
        Col::B => Color::Black,
    }
}
pub fn rcol(c: Color) -> Col {
    match c {
        Color::White => Col::W,
        Color::Black => Col::B,
    }
}
pub fn mv(m: Mv) -> ChessMove {
    ChessMove::new(sq(m.from), sq(m.to), m.promo.map(kind))
}
pub fn rmv(m: ChessMove) -> Mv {
    Mv::new(rsq(m.get_source()), rsq(m.get_dest()), m.get_promotion().map(rkind))
}
pub fn rights(k: bool, q: bool) -> CastleRights {
    match (k, q) {
        (false, false) => CastleRights::NoRights,
        (true, false) => CastleRights::KingSide,
        (false, true) => CastleRights::QueenSide,
        (true, true) => CastleRights::Both,
    }
}
pub fn bb_of(sqs: &[Sq]) -> u64 {
    sqs.iter().fold(0u64, |a, s| a | (1u64 << s))
}
pub fn bb_squares(b: u64) -> Vec<String> {
    (0..64u8).filter(|s| b >> s & 1 == 1).map(sq_name).collect()
}

/// Fill a builder through its setters in one of several call orders (the builder is a plain
/// record of fields, so the order of the calls must not matter), or through `setup`.
pub fn fill_builder(
    squares: &[Option<(Col, Kind)>],
    stm: Col,
    castle: [bool; 4],
    ep_file: Option<u8>,
    order: u64,
) -> BoardBuilder {
    let epf = ep_file.map(|f| File::from_index(f as usize));
    let (wr, br) = (rights(castle[WK], castle[WQ]), rights(castle[BK], castle[BQ]));
    if order % 8 == 6 {
        // IndexMut for the men, clear_square for squares that were occupied meanwhile
        let mut bb = BoardBuilder::new();
        for i in 0..64u8 {
            bb[sq(i)] = Some((Piece::Knight, Color::Black));
        }
        for (i, x) in squares.iter().enumerate() {
            match x {
                Some((c, k)) => bb[sq(i as u8)] = Some((kind(*k), col(*c))),
                None => {
                    bb.clear_square(sq(i as u8));
                }
            }
        }
        bb.en_passant(epf);
        bb.castle_rights(Color::Black, br);
        bb.side_to_move(col(stm));
        bb.castle_rights(Color::White, wr);
        return bb;
    }
    if order % 8 == 7 {
        // start from the Default builder (initial position) and overwrite everything
        let mut bb = BoardBuilder::default();
        // en passant first: clearing and overwriting squares afterwards must not disturb it
        bb.en_passant(epf);
        for (i, x) in squares.iter().enumerate() {
            match x {
                Some((c, k)) => {
                    bb.piece(sq(i as u8), kind(*k), col(*c));
                }
                None => {
                    bb.clear_square(sq(i as u8));
                }
            }
        }
        bb.side_to_move(col(stm)).castle_rights(Color::White, wr).castle_rights(Color::Black, br);
        return bb;
    }
    if order % 8 == 5 {
        let men: Vec<(Square, Piece, Color)> =
            squares.iter().enumerate().filter_map(|(i, x)| x.map(|(c, k)| (sq(i as u8), kind(k), col(c)))).collect();
        return BoardBuilder::setup(men.iter(), col(stm), wr, br, epf);
    }
    let mut bb = BoardBuilder::new();
    // steps: 0 = men, 1 = side, 2 = rights, 3 = en passant
    let orders: [[u8; 4]; 5] = [[0, 1, 2, 3], [3, 1, 0, 2], [2, 3, 0, 1], [1, 3, 2, 0], [3, 0, 2, 1]];
    for step in orders[(order % 8) as usize] {
        match step {
            0 => {
                for (i, x) in squares.iter().enumerate() {
                    if let Some((c, k)) = x {
                        bb.piece(sq(i as u8), kind(*k), col(*c));
                    }
                }
            }
            1 => {
                bb.side_to_move(col(stm));
            }
            2 => {
                bb.castle_rights(Color::White, wr);
                bb.castle_rights(Color::Black, br);
            }
            _ => {
                bb.en_passant(epf);
            }
        }
    }
    bb
}

/// Build the library's builder from a reference position (setter order chosen by the
/// position's fingerprint).
pub fn builder_of(p: &Pos) -> BoardBuilder {
    fill_builder(&p.board, p.stm, p.castle, p.ep.map(|t| t & 7), crate::engine::fp(p) >> 13)
}
pub fn board_via_builder(p: &Pos) -> Result<Board, String> {
    Board::try_from(&builder_of(p)).map_err(|e| format!("{:?}", e))
}
pub fn board_via_fen(p: &Pos) -> Result<Board, String> {
    Board::from_str(&p.fen()).map_err(|e| format!("{:?}", e))
}

/// Everything observable about a board through its public query API.
#[derive(Clone, PartialEq, Eq, Debug)]
pub struct Obs {
    pub placement: [Option<(Col, Kind)>; 64],
    pub stm: Col,
    pub castle: [bool; 4],
    /// library convention: square of the pawn that just made the double push
    pub ep: Option<Sq>,
    pub checkers: u64,
    pub pinned: u64,
    pub hash: u64,
    pub combined: u64,
    pub white: u64,
    pub black: u64,
    pub pieces: [u64; 6],
}

pub fn observe(b: &Board) -> Obs {
    let mut placement = [None; 64];
    for s in 0..64u8 {
        let q = sq(s);
        placement[s as usize] = match (b.piece_on(q), b.color_on(q)) {
            (Some(p), Some(c)) => Some((rcol(c), rkind(p))),
            _ => None,
        };
    }
    let w = b.castle_rights(Color::White);
    let k = b.castle_rights(Color::Black);
    Obs {
        placement,
        stm: rcol(b.side_to_move()),
        castle: [w.has_kingside(), w.has_queenside(), k.has_kingside(), k.has_queenside()],
        ep: b.en_passant().map(rsq),
        checkers: b.checkers().0,
        pinned: b.pinned().0,
        hash: b.get_hash(),
        combined: b.combined().0,
        white: b.color_combined(Color::White).0,
        black: b.color_combined(Color::Black).0,
        pieces: [
            b.pieces(Piece::Pawn).0,
            b.pieces(Piece::Knight).0,
            b.pieces(Piece::Bishop).0,
            b.pieces(Piece::Rook).0,
            b.pieces(Piece::Queen).0,
            b.pieces(Piece::King).0,
        ],
    }
}

/// First difference between two observations, as text.
pub fn obs_diff(a: &Obs, b: &Obs) -> Option<String> {
    for s in 0..64usize {
        if a.placement[s] != b.placement[s] {
            return Some(format!("square {}: {:?} vs {:?}", sq_name(s as u8), a.placement[s], b.placement[s]));
        }
    }
    if a.stm != b.stm {
        return Some(format!("side to move {:?} vs {:?}", a.stm, b.stm));
    }
    if a.castle != b.castle {
        return Some(format!("castle rights {:?} vs {:?}", a.castle, b.castle));
    }
    if a.ep != b.ep {
        return Some(format!("en_passant {:?} vs {:?}", a.ep.map(sq_name), b.ep.map(sq_name)));
    }
    if a.checkers != b.checkers {
        return Some(format!("checkers {:?} vs {:?}", bb_squares(a.checkers), bb_squares(b.checkers)));
    }
    if a.pinned != b.pinned {
        return Some(format!("pinned {:?} vs {:?}", bb_squares(a.pinned), bb_squares(b.pinned)));
    }
    if a.hash != b.hash {
        return Some(format!("hash {:#x} vs {:#x}", a.hash, b.hash));
    }
    if a.combined != b.combined || a.white != b.white || a.black != b.black || a.pieces != b.pieces {
        return Some("occupancy bitboards differ".into());
    }
    None
}

/// Compare the placement / side / rights part of an observation with a reference position.
pub fn obs_vs_pos(o: &Obs, p: &Pos) -> Option<String> {
    for s in 0..64usize {
        if o.placement[s] != p.board[s] {
            return Some(format!("square {}: library {:?}, rules {:?}", sq_name(s as u8), o.placement[s], p.board[s]));
        }
    }
    if o.stm != p.stm {
        return Some(format!("side to move: library {:?}, rules {:?}", o.stm, p.stm));
    }
    if o.castle != p.castle {
        return Some(format!("castle rights: library {:?}, rules {:?}", o.castle, p.castle));
    }
    None
}

/// Legal moves according to the library's iterator, converted (unsorted, duplicates kept).
pub fn lib_moves(b: &Board) -> Vec<Mv> {
    chess::MoveGen::new_legal(b).map(rmv).collect()
}

pub fn bitboard(b: u64) -> BitBoard {
    BitBoard::new(b)
}

/// Successor through the in-place entry point, written into a board that holds other contents.
pub fn make_in_place(b: &Board, m: ChessMove, stale: &Board) -> Board {
    let mut out = *stale;
    b.make_move(m, &mut out);
    out
}
/// Successor through one of the two move-application entry points, chosen by `sel` (the
/// library documents them as equivalent; histories use both so that every property sees
/// positions produced by either).
pub fn advance(b: &Board, m: ChessMove, sel: u64, stale: &Board) -> Board {
    if sel % 2 == 0 {
        b.make_move_new(m)
    } else {
        make_in_place(b, m, stale)
    }
}
