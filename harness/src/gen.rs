//! Generators.  Everything random is drawn from proptest strategies (or libFuzzer bytes) as a
//! *tape* of u16 choices; decoding a tape into positions, histories and programs uses the
//! reference model only, never the library under test.

use crate::bridge;
use crate::engine::{fp, Ctx, Violation};
use crate::refmodel::*;
use chess::Board;
use proptest::prelude::*;
use serde_json::{json, Value};
use std::collections::BTreeMap;
use std::str::FromStr;
use std::sync::OnceLock;

pub struct Tape<'a> {
    d: &'a [u16],
    i: usize,
}
impl<'a> Tape<'a> {
    pub fn new(d: &'a [u16]) -> Tape<'a> {
        Tape { d, i: 0 }
    }
    pub fn next(&mut self) -> u16 {
        let v = self.d.get(self.i).copied().unwrap_or(0);
        self.i += 1;
        v
    }
    /// monotone map of the next choice onto 0..n
    pub fn below(&mut self, n: usize) -> usize {
        if n == 0 {
            return 0;
        }
        ((self.next() as usize) * n) >> 16
    }
    pub fn chance(&mut self, num: u32, den: u32) -> bool {
        (self.next() as u32) * den < num * 65536
    }
    pub fn exhausted(&self) -> bool {
        self.i >= self.d.len()
    }
    pub fn used(&self) -> usize {
        self.i
    }
}

// ------------------------------------------------------------------ curated corpus

pub struct Curated {
    pub tag: String,
    pub pos: Pos,
}
static CURATED: OnceLock<Vec<Curated>> = OnceLock::new();

pub fn curated() -> &'static [Curated] {
    CURATED.get_or_init(|| load_curated().expect("curated corpus invalid"))
}
pub fn load_curated() -> Result<Vec<Curated>, String> {
    let text = include_str!("../corpus/positions.fen");
    let mut out = vec![];
    for (n, line) in text.lines().enumerate() {
        let line = line.trim();
        if line.is_empty() || line.starts_with('#') {
            continue;
        }
        let (tag, fen) = line.split_once('|').ok_or(format!("corpus line {}: no '|'", n + 1))?;
        let pos = Pos::from_fen(fen.trim()).map_err(|e| format!("corpus line {} ({}): {}", n + 1, tag.trim(), e))?;
        pos.validate().map_err(|e| format!("corpus line {} ({}): not a valid position: {}", n + 1, tag.trim(), e))?;
        out.push(Curated { tag: tag.trim().to_string(), pos });
    }
    if out.len() < 50 {
        return Err("curated corpus too small".into());
    }
    Ok(out)
}
pub fn curated_by_tag(tag: &str) -> &'static Pos {
    &curated().iter().find(|c| c.tag == tag).unwrap_or_else(|| panic!("no curated position {}", tag)).pos
}

// ------------------------------------------------------------------ direct set-up (G-setup)

fn o_side(c: Col) -> Col {
    c.other()
}
fn adjacent(a: Sq, b: Sq) -> bool {
    (file_of(a) - file_of(b)).abs() <= 1 && (rank_of(a) - rank_of(b)).abs() <= 1
}

fn place(p: &mut Pos, t: &mut Tape, c: Col, k: Kind) -> bool {
    if p.men(c) >= 16 || (k == Kind::P && p.count(c, Kind::P) >= 8) {
        return false;
    }
    let cands: Vec<Sq> = (0..64u8)
        .filter(|&s| p.at(s).is_none() && (k != Kind::P || (rank_of(s) != 0 && rank_of(s) != 7)))
        .collect();
    if cands.is_empty() {
        return false;
    }
    let s = cands[t.below(cands.len())];
    p.board[s as usize] = Some((c, k));
    true
}

/// A valid position set up directly.  `None` = rejected (both kings attacked, illegal planted
/// push, ...); rejections are counted by the caller.
pub fn setup_position(t: &mut Tape) -> Option<Pos> {
    setup_position_why(t).ok()
}

pub fn setup_position_why(t: &mut Tape) -> Result<Pos, String> {
    let mut p = Pos::empty();
    let castle_bias = t.chance(1, 3);
    // kings
    let (wk, bk);
    if castle_bias {
        wk = if t.chance(3, 4) { E1 } else { t.below(64) as Sq };
        let cands: Vec<Sq> = (0..64u8).filter(|&s| !adjacent(s, wk) && s != wk).collect();
        bk = if t.chance(3, 4) && !adjacent(E8, wk) && wk != E8 { E8 } else { cands[t.below(cands.len())] };
    } else {
        wk = t.below(64) as Sq;
        let cands: Vec<Sq> = (0..64u8).filter(|&s| !adjacent(s, wk) && s != wk).collect();
        bk = cands[t.below(cands.len())];
    }
    p.board[wk as usize] = Some((Col::W, Kind::K));
    p.board[bk as usize] = Some((Col::B, Kind::K));
    if castle_bias {
        for (ks, rs, c) in [(E1, H1, Col::W), (E1, A1, Col::W), (E8, H8, Col::B), (E8, A8, Col::B)] {
            if p.at(ks) == Some((c, Kind::K)) && p.at(rs).is_none() && t.chance(3, 4) {
                p.board[rs as usize] = Some((c, Kind::R));
            }
        }
    }
    // material profile
    let extra = match t.below(8) {
        0 => t.below(2),
        1 => 1 + t.below(3),
        2 => 2 + t.below(4),
        3 => 4 + t.below(6),
        4 => 8 + t.below(8),
        5 => 12 + t.below(10),
        6 => 18 + t.below(9),
        _ => 24 + t.below(7),
    };
    let pawn_heavy = t.chance(1, 3);
    for _ in 0..extra {
        let c = if t.chance(1, 2) { Col::W } else { Col::B };
        let k = if pawn_heavy && t.chance(2, 3) {
            Kind::P
        } else {
            match t.below(12) {
                0..=3 => Kind::P,
                4 | 5 => Kind::N,
                6 | 7 => Kind::B,
                8 | 9 => Kind::R,
                _ => Kind::Q,
            }
        };
        if !place(&mut p, t, c, k) {
            place(&mut p, t, c.other(), k);
        }
    }
    // planted en-passant state, always through a legal double push of a predecessor position
    let want_ep = t.chance(1, 3);
    if want_ep {
        let c = if t.chance(1, 2) { Col::W } else { Col::B }; // the pusher
        let (home, dir): (i8, i8) = if c == Col::W { (1, 1) } else { (6, -1) };
        let files: Vec<i8> = (0..8)
            .filter(|&f| {
                (0..3).all(|i| p.at(mk(f, home + i * dir).unwrap()).is_none())
            })
            .collect();
        if !files.is_empty() && p.men(c) < 16 && p.count(c, Kind::P) < 8 {
            let f = files[t.below(files.len())];
            p.board[mk(f, home).unwrap() as usize] = Some((c, Kind::P));
            let land_rank = home + 2 * dir;
            // enemy pawn(s) beside the landing square
            let mut sides: Vec<i8> = vec![];
            for df in [-1i8, 1] {
                if let Some(s) = mk(f + df, land_rank) {
                    if p.at(s).is_none() {
                        sides.push(df);
                    }
                }
            }
            let o = c.other();
            if !sides.is_empty() && t.chance(7, 8) {
                let n = if sides.len() == 2 && t.chance(1, 4) { 2 } else { 1 };
                let first = t.below(sides.len());
                for j in 0..n {
                    let df = sides[(first + j) % sides.len()];
                    if p.men(o) < 16 && p.count(o, Kind::P) < 8 {
                        p.board[mk(f + df, land_rank).unwrap() as usize] = Some((o, Kind::P));
                    }
                }
                // plant the rank pattern: capturer's king and pusher's rook/queen on that rank
                if t.chance(1, 3) {
                    let ok = p.king_sq(o).unwrap();
                    let row: Vec<Sq> = (0..8).map(|ff| mk(ff, land_rank).unwrap()).filter(|&s| p.at(s).is_none()).collect();
                    if row.len() >= 2 {
                        let ks = row[t.below(row.len())];
                        let ck = p.king_sq(c).unwrap();
                        if !adjacent(ks, ck) {
                            p.board[ok as usize] = None;
                            p.board[ks as usize] = Some((o, Kind::K));
                            let row2: Vec<Sq> = row.iter().copied().filter(|&s| s != ks).collect();
                            let rs = row2[t.below(row2.len())];
                            if p.men(c) < 16 {
                                p.board[rs as usize] = Some((c, if t.chance(1, 2) { Kind::R } else { Kind::Q }));
                            }
                        }
                    }
                }
            }
            p.stm = c;
            // the side that is not to move must not be in check; the pusher usually is not either
            clear_attackers(&mut p, o_side(c));
            if t.chance(7, 8) {
                clear_attackers(&mut p, c);
            }
            if p.at(mk(f, home).unwrap()) != Some((c, Kind::P)) {
                return Err("ep-pawn-removed".into());
            }
            // rights for the predecessor (before validating it)
            grant_rights(&mut p, t);
            if let Err(e) = p.validate() {
                return Err(format!("ep-predecessor: {}", e));
            }
            let m = Mv::new(mk(f, home).unwrap(), mk(f, land_rank).unwrap(), None);
            if !p.pseudo_moves().contains(&m) || !p.is_legal(m) {
                return Err("ep-push-illegal".into());
            }
            let n = p.apply(m);
            if let Err(e) = n.validate() {
                return Err(format!("ep-successor: {}", e));
            }
            return Ok(n);
        }
    }
    p.stm = if t.chance(1, 2) { Col::W } else { Col::B };
    if p.in_check(p.stm.other()) {
        p.stm = p.stm.other();
        if p.in_check(p.stm.other()) {
            let nm = p.stm.other();
            clear_attackers(&mut p, nm);
        }
    }
    grant_rights(&mut p, t);
    match p.validate() {
        Ok(()) => Ok(p),
        Err(e) => Err(format!("final: {}", e)),
    }
}

/// Construction instead of rejection: remove every (non-king) piece that attacks `c`'s king.
fn clear_attackers(p: &mut Pos, c: Col) {
    for _ in 0..16 {
        let k = match p.king_sq(c) {
            Some(k) => k,
            None => return,
        };
        let a: Vec<Sq> = p.attackers(k, c.other()).into_iter().filter(|s| !matches!(p.at(*s), Some((_, Kind::K)))).collect();
        if a.is_empty() {
            return;
        }
        for s in a {
            p.board[s as usize] = None;
        }
    }
}

fn grant_rights(p: &mut Pos, t: &mut Tape) {
    for (i, ks, rs, c) in [(WK, E1, H1, Col::W), (WQ, E1, A1, Col::W), (BK, E8, H8, Col::B), (BQ, E8, A8, Col::B)] {
        if p.at(ks) == Some((c, Kind::K)) && p.at(rs) == Some((c, Kind::R)) {
            p.castle[i] = t.chance(3, 4);
        }
    }
}


/// Positions whose FEN text is as long as FEN text gets: along every rank men and single empty
/// squares alternate (every rank reads like `r1b1k1n1` or `1p1p1p1p`), so the placement field has
/// 64 + 7 characters; now and then a few men fewer. Both sides have up to sixteen men, nearly all
/// of them with something to do. Construction instead of rejection: a man attacking the king of
/// the side that is not to move is exchanged for another man of its colour that does not.
pub fn plant_long_fen(t: &mut Tape) -> Option<Pos> {
    let mut p = Pos::empty();
    let mut occ: Vec<Sq> = vec![];
    for r in 0..8i8 {
        let phase = t.below(2) as i8;
        for f in 0..8i8 {
            if (f + phase) % 2 == 0 {
                occ.push(mk(f, r).unwrap());
            }
        }
    }
    let drop = [0usize, 0, 0, 1, 2, 4][t.below(6)];
    for _ in 0..drop {
        let i = t.below(occ.len());
        occ.swap_remove(i);
    }
    let wk = occ[t.below(occ.len())];
    let cands: Vec<Sq> = occ.iter().copied().filter(|&s| s != wk && !adjacent(s, wk)).collect();
    let bk = cands[t.below(cands.len())];
    p.board[wk as usize] = Some((Col::W, Kind::K));
    p.board[bk as usize] = Some((Col::B, Kind::K));
    for &s in &occ {
        if s == wk || s == bk {
            continue;
        }
        let mut c = if t.chance(1, 2) { Col::W } else { Col::B };
        if p.men(c) >= 16 {
            c = c.other();
        }
        if p.men(c) >= 16 {
            continue;
        }
        let back = rank_of(s) == 0 || rank_of(s) == 7;
        let mut k = match t.below(10) {
            0..=4 => Kind::P,
            5 | 6 => Kind::N,
            7 => Kind::B,
            8 => Kind::R,
            _ => Kind::Q,
        };
        if k == Kind::P && (back || p.count(c, Kind::P) >= 8) {
            k = [Kind::N, Kind::B, Kind::R, Kind::Q][t.below(4)];
        }
        p.board[s as usize] = Some((c, k));
    }
    p.stm = if t.chance(1, 2) { Col::W } else { Col::B };
    for _ in 0..8 {
        let nm = p.stm.other();
        let k = p.king_sq(nm)?;
        let att: Vec<Sq> = p.attackers(k, p.stm).into_iter().filter(|s| !matches!(p.at(*s), Some((_, Kind::K)))).collect();
        if att.is_empty() {
            break;
        }
        for s in att {
            let c = p.at(s)?.0;
            let back = rank_of(s) == 0 || rank_of(s) == 7;
            let kinds = [Kind::N, Kind::B, Kind::P, Kind::R, Kind::Q];
            let first = t.below(5);
            let mut fixed = false;
            p.board[s as usize] = None;
            for j in 0..5 {
                let kind = kinds[(first + j) % 5];
                if kind == Kind::P && (back || p.count(c, Kind::P) >= 8) {
                    continue;
                }
                p.board[s as usize] = Some((c, kind));
                if !p.attackers(k, c).contains(&s) {
                    fixed = true;
                    break;
                }
            }
            if !fixed {
                p.board[s as usize] = None;
            }
        }
    }
    grant_rights(&mut p, t);
    p.validate().ok()?;
    Some(p)
}

/// Positions after many promotions: one side owns nine to fourteen queens, rooks and bishops, most
/// of them on the lines through the enemy king (where they are candidates for giving check or
/// pinning), screened from it by single men of either colour. Construction instead of rejection:
/// a slider that would attack the king of the side not to move gets a blocker or is taken off.
pub fn plant_many_sliders(t: &mut Tape) -> Option<Pos> {
    if t.chance(1, 4) {
        return plant_many_of_a_kind(t);
    }
    let mut p = Pos::empty();
    let a = if t.chance(1, 2) { Col::W } else { Col::B }; // owner of the sliders
    let b = a.other();
    let bk = t.below(64) as Sq;
    let cands: Vec<Sq> = (0..64u8).filter(|&s| s != bk && !adjacent(s, bk)).collect();
    let ak = cands[t.below(cands.len())];
    p.board[ak as usize] = Some((a, Kind::K));
    p.board[bk as usize] = Some((b, Kind::K));
    let on_rook_line = |s: Sq| file_of(s) == file_of(bk) || rank_of(s) == rank_of(bk);
    let on_diag = |s: Sq| (file_of(s) - file_of(bk)).abs() == (rank_of(s) - rank_of(bk)).abs();
    let n = 9 + t.below(6);
    for _ in 0..n {
        let aligned: Vec<Sq> = (0..64u8).filter(|&s| p.at(s).is_none() && !adjacent(s, bk) && (on_rook_line(s) || on_diag(s))).collect();
        let any: Vec<Sq> = (0..64u8).filter(|&s| p.at(s).is_none()).collect();
        let s = if !aligned.is_empty() && t.chance(5, 6) { aligned[t.below(aligned.len())] } else { any[t.below(any.len())] };
        let k = if t.chance(1, 8) {
            [Kind::Q, Kind::R, Kind::B][t.below(3)]
        } else if on_rook_line(s) {
            if t.chance(2, 3) { Kind::R } else { Kind::Q }
        } else if t.chance(2, 3) {
            Kind::B
        } else {
            Kind::Q
        };
        p.board[s as usize] = Some((a, k));
    }
    // screens: every slider that attacks the enemy king gets one man on a square in between
    for _ in 0..24 {
        let att: Vec<Sq> = p.attackers(bk, a).into_iter().filter(|s| !matches!(p.at(*s), Some((_, Kind::K)))).collect();
        if att.is_empty() {
            break;
        }
        let s = att[t.below(att.len())];
        let (df, dr) = ((file_of(bk) - file_of(s)).signum(), (rank_of(bk) - rank_of(s)).signum());
        let mut between: Vec<Sq> = vec![];
        let (mut f, mut r) = (file_of(s) + df, rank_of(s) + dr);
        while let Some(q) = mk(f, r) {
            if q == bk {
                break;
            }
            between.push(q);
            f += df;
            r += dr;
        }
        if between.is_empty() {
            p.board[s as usize] = None;
            continue;
        }
        let q = between[t.below(between.len())];
        let back = rank_of(q) == 0 || rank_of(q) == 7;
        let c = if t.chance(2, 3) && p.men(b) < 16 { b } else { a };
        if p.men(c) >= 16 {
            p.board[s as usize] = None;
            continue;
        }
        let k = match t.below(6) {
            0 | 1 if !back && p.count(c, Kind::P) < 8 => Kind::P,
            0..=3 => Kind::N,
            4 => Kind::B,
            _ => Kind::R,
        };
        p.board[q as usize] = Some((c, k));
    }
    // a few more men for the other side
    for _ in 0..t.below(5) {
        let k = [Kind::P, Kind::N, Kind::B, Kind::R, Kind::Q][t.below(5)];
        place(&mut p, t, b, k);
    }
    p.stm = if t.chance(2, 3) { a } else { b };
    let nm = p.stm.other();
    clear_attackers(&mut p, nm);
    if t.chance(3, 4) {
        let m = p.stm;
        clear_attackers(&mut p, m);
    }
    p.validate().ok()?;
    Some(p)
}

/// Positions after many under-promotions: one side owns nine or ten knights, bishops, rooks or
/// queens (ten of a kind is the most a game can produce: two originals and eight promotions; nine
/// queens likewise), often with a pawn on the seventh that can make the next one. None of them
/// attacks the enemy king.
pub fn plant_many_of_a_kind(t: &mut Tape) -> Option<Pos> {
    let mut p = Pos::empty();
    let a = if t.chance(1, 2) { Col::W } else { Col::B };
    let b = a.other();
    let bk = t.below(64) as Sq;
    let cands: Vec<Sq> = (0..64u8).filter(|&s| s != bk && !adjacent(s, bk)).collect();
    let ak = cands[t.below(cands.len())];
    p.board[ak as usize] = Some((a, Kind::K));
    p.board[bk as usize] = Some((b, Kind::K));
    let kind = [Kind::N, Kind::B, Kind::R, Kind::Q, Kind::N, Kind::B][t.below(6)];
    let most = if kind == Kind::Q { 9 } else { 10 };
    let n = [most - 1, most - 1, most][t.below(3)];
    let mut placed = 0;
    for _ in 0..60 {
        if placed >= n {
            break;
        }
        let s = t.below(64) as Sq;
        if p.at(s).is_some() {
            continue;
        }
        p.board[s as usize] = Some((a, kind));
        if p.attackers(bk, a).contains(&s) {
            p.board[s as usize] = None;
            continue;
        }
        placed += 1;
    }
    // pawns of that side on their seventh rank (the next promotion) and a few men for the other side
    let seventh: i8 = if a == Col::W { 6 } else { 1 };
    for _ in 0..t.below(4) {
        let f = t.below(8) as i8;
        let s = mk(f, seventh).unwrap();
        if p.at(s).is_none() && p.men(a) < 16 && p.count(a, Kind::P) + placed.min(8) <= 8 + 2 {
            p.board[s as usize] = Some((a, Kind::P));
            if p.attackers(bk, a).contains(&s) {
                p.board[s as usize] = None;
            }
        }
    }
    for _ in 0..t.below(4) {
        let k = [Kind::P, Kind::N, Kind::B, Kind::R][t.below(4)];
        place(&mut p, t, b, k);
    }
    p.stm = if t.chance(3, 4) { a } else { b };
    let nm = p.stm.other();
    clear_attackers(&mut p, nm);
    p.validate().ok()?;
    Some(p)
}

/// The other valid positions with the same men on the same squares: the turn with the other side,
/// castling rights dropped, the en-passant state dropped. Asked one right after the other they
/// are what a cache keyed on the placement alone cannot tell apart.
pub fn placement_siblings(p: &Pos) -> Vec<Pos> {
    let mut v = vec![];
    let mut q = p.clone();
    q.stm = p.stm.other();
    q.ep = None;
    if q.validate().is_ok() {
        v.push(q);
    }
    if p.castle.iter().any(|x| *x) {
        let mut q = p.clone();
        q.castle = [false; 4];
        if q.validate().is_ok() {
            v.push(q);
        }
        let mut q = p.clone();
        let first = p.castle.iter().position(|x| *x).unwrap();
        q.castle[first] = false;
        if q != *v.last().unwrap_or(p) && q.validate().is_ok() {
            v.push(q);
        }
    }
    if p.ep.is_some() {
        let mut q = p.clone();
        q.ep = None;
        if q.validate().is_ok() {
            v.push(q);
        }
    }
    v
}

// ------------------------------------------------------------------ policies

#[derive(Clone, Copy, PartialEq, Eq, Debug)]
pub enum Policy {
    Uniform,
    Special,
    Reversible,
    ReversibleNoThird,
    SeekRepetition,
    Endgame,
}
pub const POLICIES: [Policy; 6] = [
    Policy::Uniform,
    Policy::Special,
    Policy::Reversible,
    Policy::ReversibleNoThird,
    Policy::SeekRepetition,
    Policy::Endgame,
];
impl Policy {
    pub fn from_index(i: usize) -> Policy {
        POLICIES[i % POLICIES.len()]
    }
}

/// Position identity used for repetition steering ("strict": placement, side, rights and
/// whether an enemy pawn stands beside the just-pushed pawn).
pub fn rep_key(p: &Pos) -> u64 {
    let ep = if p.ep_adjacent_pawn() { p.ep } else { None };
    fp(&(&p.board[..], p.stm, p.castle, ep))
}

pub fn is_special(p: &Pos, m: Mv) -> bool {
    p.is_capture(m) || p.is_castle(m) || p.is_double_push(m) || m.promo.is_some() || {
        let n = p.apply(m);
        n.in_check(n.stm)
    }
}
pub fn is_reversible(p: &Pos, m: Mv) -> bool {
    !matches!(p.at(m.from), Some((_, Kind::P))) && !p.is_capture(m)
}

pub fn choose(policy: Policy, t: &mut Tape, p: &Pos, legal: &[Mv], counts: &BTreeMap<u64, u32>) -> Mv {
    let pick = |t: &mut Tape, v: &[Mv]| v[t.below(v.len())];
    match policy {
        Policy::Uniform => pick(t, legal),
        Policy::Special => {
            let sp: Vec<Mv> = legal.iter().copied().filter(|m| is_special(p, *m)).collect();
            if !sp.is_empty() && t.chance(3, 4) {
                pick(t, &sp)
            } else {
                pick(t, legal)
            }
        }
        Policy::Endgame => {
            let caps: Vec<Mv> = legal.iter().copied().filter(|m| p.is_capture(*m)).collect();
            if !caps.is_empty() && p.total_men() > 5 && t.chance(3, 4) {
                pick(t, &caps)
            } else {
                pick(t, legal)
            }
        }
        Policy::Reversible | Policy::ReversibleNoThird | Policy::SeekRepetition => {
            let rev: Vec<Mv> = legal.iter().copied().filter(|m| is_reversible(p, *m)).collect();
            if rev.is_empty() || !t.chance(31, 32) {
                return pick(t, legal);
            }
            match policy {
                Policy::Reversible => pick(t, &rev),
                Policy::ReversibleNoThird => {
                    let ok: Vec<Mv> = rev
                        .iter()
                        .copied()
                        .filter(|m| counts.get(&rep_key(&p.apply(*m))).copied().unwrap_or(0) < 2)
                        .collect();
                    // prefer moves that neither repeat nor give up castling rights too early
                    if !ok.is_empty() {
                        pick(t, &ok)
                    } else {
                        pick(t, &rev)
                    }
                }
                _ => {
                    let rep: Vec<Mv> = rev
                        .iter()
                        .copied()
                        .filter(|m| counts.get(&rep_key(&p.apply(*m))).copied().unwrap_or(0) >= 1)
                        .collect();
                    if !rep.is_empty() && t.chance(3, 4) {
                        pick(t, &rep)
                    } else {
                        pick(t, &rev)
                    }
                }
            }
        }
    }
}

// ------------------------------------------------------------------ raw history cases

#[derive(Clone, Debug)]
pub struct RawHist {
    pub start_sel: u16,
    pub setup: Vec<u16>,
    pub policy: u8,
    pub choices: Vec<u16>,
}

pub fn raw_hist_strategy(min_plies: usize, max_plies: usize) -> impl Strategy<Value = RawHist> {
    (
        any::<u16>(),
        proptest::collection::vec(any::<u16>(), 96),
        0u8..(POLICIES.len() as u8),
        proptest::collection::vec(any::<u16>(), (min_plies * 2)..=(max_plies * 2)),
    )
        .prop_map(|(start_sel, setup, policy, choices)| RawHist { start_sel, setup, policy, choices })
}

/// Start position of a raw case: curated (about 3 in 8), set up directly (about 4 in 9) or planted
/// (about 3 in 16: boxed-in king with one movable feature, en passant next to the king, and - 1 in
/// 64 each - the longest FEN texts and many promoted sliders around the enemy king).
pub fn start_of(raw: &RawHist) -> Option<(String, Pos)> {
    let cur = curated();
    if raw.start_sel < 0x6000 {
        let i = (raw.start_sel as usize * cur.len()) / 0x6000;
        Some((cur[i].tag.clone(), cur[i].pos.clone()))
    } else if raw.start_sel < 0xC800 {
        let mut t = Tape::new(&raw.setup);
        setup_position(&mut t).map(|p| ("setup".to_string(), p))
    } else if raw.start_sel < 0xCC00 {
        // the longest FEN texts: men and single empty squares alternating along every rank
        let mut t = Tape::new(&raw.setup);
        plant_long_fen(&mut t).map(|p| ("planted".to_string(), p)).or_else(|| setup_position(&mut Tape::new(&raw.setup)).map(|p| ("setup".to_string(), p)))
    } else if raw.start_sel < 0xD000 {
        // many promoted sliders on the lines through the enemy king
        let mut t = Tape::new(&raw.setup);
        plant_many_sliders(&mut t).map(|p| ("planted".to_string(), p)).or_else(|| setup_position(&mut Tape::new(&raw.setup)).map(|p| ("setup".to_string(), p)))
    } else if raw.start_sel < 0xE800 {
        // planted low-mobility positions (boxed-in king plus one movable feature)
        // (a rejected planting falls back to the direct set-up from the same tape: construction
        // instead of rejection)
        let mut t = Tape::new(&raw.setup);
        plant_boxed(&mut t).map(|(p, _)| ("planted".to_string(), p)).or_else(|| setup_position(&mut Tape::new(&raw.setup)).map(|p| ("setup".to_string(), p)))
    } else if raw.start_sel < 0xF400 {
        let mut t = Tape::new(&raw.setup);
        plant_ep_near_king(&mut t).map(|p| ("planted".to_string(), p)).or_else(|| setup_position(&mut Tape::new(&raw.setup)).map(|p| ("setup".to_string(), p)))
    } else {
        let mut t = Tape::new(&raw.setup);
        plant_ep_discovery(&mut t).map(|p| ("planted".to_string(), p)).or_else(|| setup_position(&mut Tape::new(&raw.setup)).map(|p| ("setup".to_string(), p)))
    }
}

pub enum MoveSource<'a> {
    Tape { policy: Policy, tape: Tape<'a> },
    Explicit { moves: &'a [Mv], i: usize },
}
impl<'a> MoveSource<'a> {
    pub fn next(&mut self, p: &Pos, legal: &[Mv], counts: &BTreeMap<u64, u32>) -> Option<Mv> {
        match self {
            MoveSource::Tape { policy, tape } => {
                if legal.is_empty() || tape.exhausted() {
                    None
                } else {
                    // two tape cells per ply keep plies aligned under shrinking
                    let start = tape.used();
                    let m = choose(*policy, tape, p, legal, counts);
                    while tape.used() < start + 2 {
                        tape.next();
                    }
                    Some(m)
                }
            }
            MoveSource::Explicit { moves, i } => {
                let m = moves.get(*i).copied();
                *i += 1;
                m
            }
        }
    }
}

/// One test point of a walk: the position after `moves`, in both worlds.
pub struct Step<'a> {
    pub start: &'a Pos,
    pub moves: &'a [Mv],
    pub pos: &'a Pos,
    pub legal: &'a [Mv],
    pub board: &'a Board,
    /// (previous position, previous library board, move made)
    pub prev: Option<(&'a Pos, &'a Board, Mv)>,
    pub counts: &'a BTreeMap<u64, u32>,
}
impl<'a> Step<'a> {
    pub fn case(&self) -> Value {
        json!({
            "start": self.start.fen(),
            "moves": self.moves.iter().map(|m| m.uci()).collect::<Vec<_>>(),
            "position": self.pos.fen(),
        })
    }
    pub fn case_with(&self, extra: Value) -> Value {
        let mut c = self.case();
        if let Value::Object(m) = extra {
            for (k, v) in m {
                c[k] = v;
            }
        }
        c
    }
}

/// Parse the common explicit case (start FEN + UCI moves).
pub fn parse_hist_case(v: &Value) -> Result<(Pos, Vec<Mv>), String> {
    let start = v.get("start").and_then(|s| s.as_str()).ok_or("case.start missing")?;
    let pos = Pos::from_fen(start)?;
    let mut moves = vec![];
    if let Some(ms) = v.get("moves").and_then(|m| m.as_array()) {
        for m in ms {
            let t = m.as_str().ok_or("move not a string")?;
            moves.push(Mv::parse_uci(t).ok_or(format!("bad move {}", t))?);
        }
    }
    Ok((pos, moves))
}

/// Library board for a reference start position (`None` if the library refuses it; that is
/// property C07's business and merely counted elsewhere).
pub fn lib_start(p: &Pos) -> Option<Board> {
    // every way of loading a position, chosen by fingerprint
    use std::convert::TryFrom;
    match (crate::engine::fp(p) >> 17) % 6 {
        0 | 1 | 2 => Board::from_str(&p.fen()).ok(),
        3 => Board::try_from(&bridge::builder_of(p)).ok(),
        4 => Board::try_from(&mut bridge::builder_of(p)).ok(),
        _ => Board::try_from(bridge::builder_of(p)).ok(),
    }
}

/// Walk a history: visit the start position and the position after every move.  The moves come
/// from the reference model's legal move list; the library board is advanced with
/// `make_move_new`.
pub fn walk(
    ctx: &mut Ctx,
    start: &Pos,
    src: &mut MoveSource,
    max_plies: usize,
    visit: &dyn Fn(&mut Ctx, &Step) -> Result<(), Violation>,
) -> Result<usize, Violation> {
    ctx.set_case(json!({"start": start.fen(), "moves": [], "position": start.fen()}));
    let board0 = match lib_start(start) {
        Some(b) => b,
        None => {
            ctx.reject();
            ctx.count("start_rejected_by_library", 1);
            return Ok(0);
        }
    };
    let mut moves: Vec<Mv> = vec![];
    let mut counts: BTreeMap<u64, u32> = BTreeMap::new();
    let mut pos = start.clone();
    let mut board = board0;
    let entry_sel = crate::engine::fp(start) >> 7;
    let mut prev: Option<(Pos, Board, Mv)> = None;
    loop {
        *counts.entry(rep_key(&pos)).or_insert(0) += 1;
        let legal = pos.legal_moves();
        {
            let step = Step {
                start,
                moves: &moves,
                pos: &pos,
                legal: &legal,
                board: &board,
                prev: prev.as_ref().map(|(p, b, m)| (p, b, *m)),
                counts: &counts,
            };
            ctx.set_case(step.case());
            visit(ctx, &step)?;
        }
        if moves.len() >= max_plies {
            break;
        }
        let m = match src.next(&pos, &legal, &counts) {
            Some(m) => m,
            None => break,
        };
        if !legal.contains(&m) {
            // explicit replay with a move that is not legal: stop (replay files are trusted input)
            break;
        }
        let npos = pos.apply(m);
        // histories advance through make_move_new and the in-place make_move alternately
        let nboard = bridge::advance(&board, bridge::mv(m), entry_sel + moves.len() as u64, &board0);
        prev = Some((pos, board, m));
        pos = npos;
        board = nboard;
        moves.push(m);
        // one position in eight is re-loaded from text or through the builder, so that
        // positions from the middle of a game are also seen as loaded positions
        let r = crate::engine::fp(&(entry_sel, moves.len(), "reload"));
        if r % 8 == 0 {
            let loaded = if (r >> 8) % 2 == 0 { Board::from_str(&board.to_string()).ok() } else { bridge::board_via_builder(&pos).ok() };
            if let Some(l) = loaded {
                board = l;
            }
        }
    }
    Ok(moves.len())
}

/// Classification of a position by rule class (for the evidence histogram).
pub fn classify_position(ctx: &mut Ctx, p: &Pos, legal: &[Mv]) -> bool {
    let mut nontrivial = false;
    let checkers = p.checkers();
    if p.ep.is_some() {
        ctx.class("pos:ep-target");
        nontrivial = true;
        if p.ep_adjacent_pawn() {
            ctx.class("pos:ep-adjacent-pawn");
            let pseudo_ep: Vec<Mv> = p.pseudo_moves().into_iter().filter(|m| p.is_ep_capture(*m)).collect();
            let legal_ep = pseudo_ep.iter().filter(|m| legal.contains(m)).count();
            if legal_ep > 0 {
                ctx.class("pos:ep-legal");
            }
            if legal_ep < pseudo_ep.len() {
                ctx.class("pos:ep-illegal(pin/check)");
            }
        }
    }
    if p.castle.iter().any(|x| *x) {
        ctx.class("pos:castle-rights");
        nontrivial = true;
        let pc: Vec<Mv> = p.pseudo_moves().into_iter().filter(|m| p.is_castle(*m)).collect();
        let lc = pc.iter().filter(|m| legal.contains(m)).count();
        if lc > 0 {
            ctx.class("pos:castle-legal");
        }
        if lc < pc.len() {
            ctx.class("pos:castle-illegal(attacked)");
        }
    }
    if legal.iter().any(|m| m.promo.is_some()) {
        ctx.class("pos:promotion-available");
        nontrivial = true;
    }
    if !p.pinned().is_empty() {
        ctx.class("pos:pinned-piece");
        nontrivial = true;
    }
    match checkers.len() {
        0 => {}
        1 => {
            ctx.class("pos:single-check");
            nontrivial = true;
        }
        _ => {
            ctx.class("pos:double-check");
            nontrivial = true;
        }
    }
    if legal.is_empty() {
        ctx.class(if checkers.is_empty() { "pos:stalemate" } else { "pos:checkmate" });
    }
    nontrivial
}

pub fn classify_move(ctx: &mut Ctx, p: &Pos, m: Mv) -> bool {
    let mut special = false;
    if p.is_ep_capture(m) {
        ctx.class("move:en-passant");
        special = true;
    } else if p.is_capture(m) {
        ctx.class("move:capture");
        special = true;
        if [A1, H1, A8, H8].contains(&m.to) && matches!(p.at(m.to), Some((_, Kind::R))) {
            ctx.class("move:rook-captured-at-home");
        }
    }
    if p.is_castle(m) {
        ctx.class(if file_of(m.to) == 6 { "move:castle-kingside" } else { "move:castle-queenside" });
        special = true;
    }
    if p.is_double_push(m) {
        ctx.class("move:double-push");
        special = true;
    }
    if let Some(k) = m.promo {
        ctx.class(&format!("move:promotion-{:?}", k));
        special = true;
    }
    if matches!(p.at(m.from), Some((_, Kind::K)) | Some((_, Kind::R))) && [E1, E8, A1, H1, A8, H8].contains(&m.from) {
        let n = p.apply(m);
        if n.castle != p.castle {
            ctx.class("move:rights-lost-by-leaving-home");
            special = true;
        }
    }
    if !special {
        ctx.class("move:quiet");
    }
    special
}

// ------------------------------------------------------------------ planted pattern: en passant next to the king

/// A position directly after a double pawn push, in which an en-passant capture lands
/// diagonally adjacent to the enemy king, with the capturing side's pieces crowded around that
/// king (so that the capture frequently mates, stalemates or merely checks).  Built as a legal
/// predecessor plus the reference model's double push.
pub fn plant_ep_near_king(t: &mut Tape) -> Option<Pos> {
    let c = if t.chance(1, 2) { Col::W } else { Col::B }; // the capturer
    let o = c.other();
    // ranks from the capturer's point of view
    let (r_cap, r_dest, r_home): (i8, i8, i8) = if c == Col::W { (4, 5, 6) } else { (3, 2, 1) };
    let fd = t.below(8) as i8; // file of the pushed pawn / capture destination
    let side = if t.chance(1, 2) { 1 } else { -1 };
    let fc = fd + side; // capturer's file
    if !(0..8).contains(&fc) {
        return None;
    }
    let mut p = Pos::empty();
    p.board[mk(fd, r_home)? as usize] = Some((o, Kind::P));
    p.board[mk(fc, r_cap)? as usize] = Some((c, Kind::P));
    // enemy king diagonally adjacent to the destination: in front of the pawn (real check) or
    // behind it (no check)
    let front = t.chance(2, 3);
    let kr = if front { r_dest + (r_dest - r_cap) } else { r_cap };
    let kf = fd + if t.chance(1, 2) { 1 } else { -1 };
    let ks = mk(kf, kr)?;
    if p.at(ks).is_some() {
        return None;
    }
    p.board[ks as usize] = Some((o, Kind::K));
    // capturer's king somewhere not adjacent
    let cands: Vec<Sq> = (0..64u8).filter(|&s| p.at(s).is_none() && !adjacent(s, ks) && s != mk(fd, r_dest).unwrap() && s != mk(fd, r_cap).unwrap()).collect();
    let near: Vec<Sq> = cands.iter().copied().filter(|&s| (file_of(s) - kf).abs() <= 2 && (rank_of(s) - kr).abs() <= 2).collect();
    let cks = if !near.is_empty() && t.chance(1, 2) { near[t.below(near.len())] } else { cands[t.below(cands.len())] };
    p.board[cks as usize] = Some((c, Kind::K));
    // attackers crowd the enemy king
    let n_att = 1 + t.below(5);
    for _ in 0..n_att {
        let k = [Kind::Q, Kind::R, Kind::R, Kind::B, Kind::N, Kind::N, Kind::P][t.below(7)];
        let spots: Vec<Sq> = (0..64u8)
            .filter(|&s| {
                p.at(s).is_none()
                    && s != mk(fd, r_dest).unwrap()
                    && s != mk(fd, r_cap).unwrap()
                    && (file_of(s) - kf).abs() <= 3
                    && (rank_of(s) - kr).abs() <= 3
                    && (k != Kind::P || (rank_of(s) != 0 && rank_of(s) != 7))
            })
            .collect();
        if spots.is_empty() {
            break;
        }
        p.board[spots[t.below(spots.len())] as usize] = Some((c, k));
    }
    // a few defenders / blockers next to their king
    for _ in 0..t.below(4) {
        let k = [Kind::P, Kind::P, Kind::B, Kind::N, Kind::R][t.below(5)];
        let spots: Vec<Sq> = (0..64u8)
            .filter(|&s| p.at(s).is_none() && adjacent(s, ks) && s != mk(fd, r_dest).unwrap() && s != mk(fd, r_cap).unwrap() && (k != Kind::P || (rank_of(s) != 0 && rank_of(s) != 7)))
            .collect();
        if spots.is_empty() {
            break;
        }
        p.board[spots[t.below(spots.len())] as usize] = Some((o, k));
    }
    p.stm = o;
    clear_attackers(&mut p, c);
    if t.chance(7, 8) {
        // the pusher is normally not in check before the push (otherwise the push is rarely legal)
        clear_attackers(&mut p, o);
    }
    if p.at(mk(fd, r_home)? ) != Some((o, Kind::P)) || p.at(mk(fc, r_cap)?) != Some((c, Kind::P)) {
        return None;
    }
    if p.validate().is_err() {
        return None;
    }
    let push = Mv::new(mk(fd, r_home)?, mk(fd, r_cap)?, None);
    if !p.pseudo_moves().contains(&push) || !p.is_legal(push) {
        return None;
    }
    let n = p.apply(push);
    if n.validate().is_err() {
        return None;
    }
    Some(n)
}

// ------------------------------------------------------------------ planted: boxed-in king

/// Squares from which a black piece of kind `k` would attack `n` on the current board (empty
/// squares only).
fn attack_origins(p: &Pos, n: Sq, k: Kind) -> Vec<Sq> {
    let (f, r) = (file_of(n), rank_of(n));
    let mut out = vec![];
    match k {
        Kind::P => {
            // a black pawn on (f±1, r+1) attacks n
            for df in [-1i8, 1] {
                if let Some(s) = mk(f + df, r + 1) {
                    if p.at(s).is_none() && rank_of(s) != 7 && rank_of(s) != 0 {
                        out.push(s);
                    }
                }
            }
        }
        Kind::N => {
            for (df, dr) in [(1i8, 2i8), (2, 1), (2, -1), (1, -2), (-1, -2), (-2, -1), (-2, 1), (-1, 2)] {
                if let Some(s) = mk(f + df, r + dr) {
                    if p.at(s).is_none() {
                        out.push(s);
                    }
                }
            }
        }
        Kind::K => {}
        _ => {
            let rook = [(1i8, 0i8), (-1, 0), (0, 1), (0, -1)];
            let bish = [(1i8, 1i8), (1, -1), (-1, 1), (-1, -1)];
            let mut dirs: Vec<(i8, i8)> = vec![];
            if k == Kind::R || k == Kind::Q {
                dirs.extend(rook);
            }
            if k == Kind::B || k == Kind::Q {
                dirs.extend(bish);
            }
            for (df, dr) in dirs {
                let (mut cf, mut cr) = (f + df, r + dr);
                while let Some(s) = mk(cf, cr) {
                    if p.at(s).is_some() {
                        break;
                    }
                    out.push(s);
                    cf += df;
                    cr += dr;
                }
            }
        }
    }
    out
}

/// Add black pieces until every square next to the white king that the king could step on is
/// attacked (greedy, bounded).  `reserved` squares stay empty; the king itself is attacked only if
/// `allow_check`.
fn box_white_king(p: &mut Pos, t: &mut Tape, reserved: u64, allow_check: bool) {
    let k = match p.king_sq(Col::W) {
        Some(k) => k,
        None => return,
    };
    for _ in 0..14 {
        let open: Vec<Sq> = (0..64u8)
            .filter(|&n| n != k && adjacent(n, k) && !matches!(p.at(n), Some((Col::W, _))) && !p.attacked(n, Col::B))
            .collect();
        if open.is_empty() || p.men(Col::B) >= 14 {
            return;
        }
        let n = open[t.below(open.len())];
        let kind = [Kind::R, Kind::B, Kind::Q, Kind::N, Kind::P, Kind::R, Kind::B, Kind::N][t.below(8)];
        if kind == Kind::P && p.count(Col::B, Kind::P) >= 7 {
            continue;
        }
        let cands: Vec<Sq> = attack_origins(p, n, kind)
            .into_iter()
            .filter(|&s| reserved >> s & 1 == 0)
            .filter(|&s| {
                if allow_check {
                    return true;
                }
                let mut q = p.clone();
                q.board[s as usize] = Some((Col::B, kind));
                !q.attacked(k, Col::B)
            })
            .collect();
        if cands.is_empty() {
            continue;
        }
        let s = cands[t.below(cands.len())];
        p.board[s as usize] = Some((Col::B, kind));
    }
}

fn bit(s: Sq) -> u64 {
    1u64 << s
}

/// Low-mobility positions: the king of the side to move is boxed in by enemy attacks and the only
/// other movable thing is a planted feature - an en-passant capture (free; capturer pinned along
/// the capture diagonal = legal; pinned otherwise or rank pattern = illegal; the only evasion of
/// the pushed pawn's check), a pawn on the seventh rank (blocked / capturing / diagonally pinned
/// by a piece it can take), a pinned piece, or nothing.  Such positions are where a single
/// missing or extra move flips `status()` between Ongoing and Stalemate / Checkmate.
/// Constructed for White to move and then mirrored at random; en-passant state always arises
/// from a validated predecessor plus the reference model's double push.
pub fn plant_boxed(t: &mut Tape) -> Option<(Pos, &'static str)> {
    let mut p = Pos::empty();
    let variant = t.below(12);
    let allow_check = t.chance(1, 5);
    let mut reserved: u64 = 0;
    let mut push: Option<Mv> = None;
    let tag: &'static str;
    let put = |p: &mut Pos, s: Sq, c: Col, k: Kind| -> Option<()> {
        if p.at(s).is_some() {
            return None;
        }
        p.board[s as usize] = Some((c, k));
        Some(())
    };
    let free_king = |p: &mut Pos, t: &mut Tape, reserved: u64| -> Option<()> {
        // white king: corners and edges preferred
        let all: Vec<Sq> = (0..64u8).filter(|&s| p.at(s).is_none() && reserved >> s & 1 == 0).collect();
        let edge: Vec<Sq> = all.iter().copied().filter(|&s| file_of(s) == 0 || file_of(s) == 7 || rank_of(s) == 0 || rank_of(s) == 7).collect();
        let corner: Vec<Sq> = all.iter().copied().filter(|&s| (file_of(s) == 0 || file_of(s) == 7) && (rank_of(s) == 0 || rank_of(s) == 7)).collect();
        let pool = match t.below(4) {
            0 if !corner.is_empty() => corner,
            1 | 2 if !edge.is_empty() => edge,
            _ => all,
        };
        if pool.is_empty() {
            return None;
        }
        let s = pool[t.below(pool.len())];
        p.board[s as usize] = Some((Col::W, Kind::K));
        Some(())
    };
    if variant <= 6 {
        // ---------------------------------------------------------------- en-passant features
        let fc = t.below(8) as i8;
        let dx: i8 = if t.chance(1, 2) { 1 } else { -1 };
        let fd = fc + dx;
        if !(0..8).contains(&fd) {
            return None;
        }
        let pw = mk(fc, 4)?; // white capturer
        let home = mk(fd, 6)?;
        let mid = mk(fd, 5)?; // capture destination
        let land = mk(fd, 4)?;
        put(&mut p, pw, Col::W, Kind::P)?;
        put(&mut p, home, Col::B, Kind::P)?;
        reserved |= bit(mid) | bit(land);
        push = Some(Mv::new(home, land, None));
        // a second capturer on the other side, now and then
        if t.chance(1, 6) {
            if let Some(s2) = mk(fd + dx, 4) {
                let _ = put(&mut p, s2, Col::W, Kind::P);
            }
        }
        match variant {
            0 | 1 => {
                tag = "boxed:en-passant-free";
                free_king(&mut p, t, reserved)?;
            }
            2 | 3 => {
                // pinned along the capture diagonal: king behind the pawn, pinner beyond `mid`
                tag = "boxed:en-passant-pinned-on-capture-diagonal";
                let kd = 1 + t.below(3) as i8;
                let ks = mk(fc - kd * dx, 4 - kd)?;
                for i in 1..kd {
                    reserved |= bit(mk(fc - i * dx, 4 - i)?);
                }
                put(&mut p, ks, Col::W, Kind::K)?;
                let pd = 1 + t.below(2) as i8;
                let ps = mk(fd + pd * dx, 5 + pd)?;
                for i in 1..pd {
                    reserved |= bit(mk(fd + i * dx, 5 + i)?);
                }
                put(&mut p, ps, Col::B, if t.chance(1, 2) { Kind::B } else { Kind::Q })?;
            }
            4 => {
                // pinned along the other diagonal or the file: the capture is illegal
                tag = "boxed:en-passant-pinned-off-line";
                let (lx, ly): (i8, i8) = if t.chance(1, 2) { (-dx, 1) } else { (0, 1) };
                let kd = 1 + t.below(3) as i8;
                let ks = mk(fc - kd * lx, 4 - kd * ly)?;
                for i in 1..kd {
                    reserved |= bit(mk(fc - i * lx, 4 - i * ly)?);
                }
                put(&mut p, ks, Col::W, Kind::K)?;
                let pd = 1 + t.below(3) as i8;
                let ps = mk(fc + pd * lx, 4 + pd * ly)?;
                for i in 1..pd {
                    reserved |= bit(mk(fc + i * lx, 4 + i * ly)?);
                }
                let kind = if lx == 0 { if t.chance(1, 2) { Kind::R } else { Kind::Q } } else if t.chance(1, 2) { Kind::B } else { Kind::Q };
                put(&mut p, ps, Col::B, kind)?;
            }
            5 => {
                // rank pattern: king and enemy rook/queen on the pawns' rank, nothing else between
                tag = "boxed:en-passant-rank-pattern";
                let (lo, hi) = (fc.min(fd), fc.max(fd));
                let left_king = t.chance(1, 2);
                let (kf, rf) = if left_king { (lo - 1 - t.below(3) as i8, hi + 1 + t.below(3) as i8) } else { (hi + 1 + t.below(3) as i8, lo - 1 - t.below(3) as i8) };
                let ks = mk(kf, 4)?;
                let rs = mk(rf, 4)?;
                for f in (kf.min(rf) + 1)..kf.max(rf) {
                    if f != fc && f != fd {
                        reserved |= bit(mk(f, 4)?);
                    }
                }
                put(&mut p, ks, Col::W, Kind::K)?;
                put(&mut p, rs, Col::B, if t.chance(1, 2) { Kind::R } else { Kind::Q })?;
            }
            _ => {
                // the pushed pawn gives check: capturing it en passant is an evasion
                tag = "boxed:en-passant-evades-pawn-check";
                let ks = if t.chance(1, 2) { mk(fc, 3)? } else { mk(fd - dx, 3)? };
                put(&mut p, ks, Col::W, Kind::K)?;
            }
        }
        // block the capturer's own push most of the time
        if t.chance(3, 4) {
            if let Some(front) = mk(fc, 5) {
                if p.at(front).is_none() && reserved >> front & 1 == 0 {
                    let k = [Kind::P, Kind::N, Kind::B, Kind::R][t.below(4)];
                    p.board[front as usize] = Some((Col::B, k));
                }
            }
        }
    } else if variant <= 8 {
        // ---------------------------------------------------------------- pawn on the seventh
        tag = "boxed:pawn-on-seventh";
        let f = t.below(8) as i8;
        let pw = mk(f, 6)?;
        put(&mut p, pw, Col::W, Kind::P)?;
        let pinned = t.chance(1, 2);
        if pinned {
            let e: i8 = if t.chance(1, 2) { 1 } else { -1 };
            let ps = mk(f + e, 7)?;
            put(&mut p, ps, Col::B, if t.chance(1, 2) { Kind::B } else { Kind::Q })?;
            let kd = 1 + t.below(3) as i8;
            let ks = mk(f - kd * e, 6 - kd)?;
            for i in 1..kd {
                reserved |= bit(mk(f - i * e, 6 - i)?);
            }
            put(&mut p, ks, Col::W, Kind::K)?;
        } else {
            free_king(&mut p, t, reserved)?;
        }
        let ahead = mk(f, 7)?;
        if t.chance(2, 3) {
            let _ = put(&mut p, ahead, Col::B, [Kind::N, Kind::B, Kind::R, Kind::Q][t.below(4)]);
        } else {
            reserved |= bit(ahead);
        }
        for e in [-1i8, 1] {
            if let Some(s) = mk(f + e, 7) {
                if p.at(s).is_none() && t.chance(1, 3) {
                    p.board[s as usize] = Some((Col::B, [Kind::N, Kind::B, Kind::R, Kind::Q][t.below(4)]));
                }
            }
        }
    } else if variant <= 10 {
        // ---------------------------------------------------------------- one pinned piece
        tag = "boxed:pinned-piece";
        free_king(&mut p, t, 0)?;
        let ks = p.king_sq(Col::W)?;
        let dirs = [(1i8, 0i8), (-1, 0), (0, 1), (0, -1), (1, 1), (1, -1), (-1, 1), (-1, -1)];
        let (dx, dy) = dirs[t.below(8)];
        let d1 = 1 + t.below(3) as i8;
        let d2 = d1 + 1 + t.below(3) as i8;
        let xs = mk(file_of(ks) + d1 * dx, rank_of(ks) + d1 * dy)?;
        let es = mk(file_of(ks) + d2 * dx, rank_of(ks) + d2 * dy)?;
        for i in 1..d2 {
            if i != d1 {
                reserved |= bit(mk(file_of(ks) + i * dx, rank_of(ks) + i * dy)?);
            }
        }
        let own = [Kind::N, Kind::B, Kind::R, Kind::Q, Kind::P][t.below(5)];
        if own == Kind::P && (rank_of(xs) == 0 || rank_of(xs) == 7) {
            return None;
        }
        put(&mut p, xs, Col::W, own)?;
        let straight = dx == 0 || dy == 0;
        let slider = if t.chance(1, 3) { Kind::Q } else if straight { Kind::R } else { Kind::B };
        put(&mut p, es, Col::B, slider)?;
    } else {
        tag = "boxed:bare";
        free_king(&mut p, t, 0)?;
        // an immobile own pawn or two
        for _ in 0..t.below(3) {
            let f = t.below(8) as i8;
            let r = 1 + t.below(5) as i8;
            if let (Some(a), Some(b)) = (mk(f, r), mk(f, r + 1)) {
                if p.at(a).is_none() && p.at(b).is_none() {
                    p.board[a as usize] = Some((Col::W, Kind::P));
                    p.board[b as usize] = Some((Col::B, if r + 1 == 7 { Kind::N } else { Kind::P }));
                }
            }
        }
    }
    // black king: anywhere not adjacent to the white king, off the reserved squares
    let wk = p.king_sq(Col::W)?;
    let cands: Vec<Sq> = (0..64u8).filter(|&s| p.at(s).is_none() && reserved >> s & 1 == 0 && !adjacent(s, wk)).collect();
    if cands.is_empty() {
        return None;
    }
    let near: Vec<Sq> = cands.iter().copied().filter(|&s| (file_of(s) - file_of(wk)).abs() <= 2 && (rank_of(s) - rank_of(wk)).abs() <= 2).collect();
    let bk = if !near.is_empty() && t.chance(1, 3) { near[t.below(near.len())] } else { cands[t.below(cands.len())] };
    p.board[bk as usize] = Some((Col::B, Kind::K));
    // box the white king in (before a planted push the king must not stand in check)
    box_white_king(&mut p, t, reserved, allow_check && push.is_none());
    let out = match push {
        Some(m) => {
            p.stm = Col::B;
            clear_attackers(&mut p, Col::W);
            if p.validate().is_err() || !p.pseudo_moves().contains(&m) || !p.is_legal(m) {
                return None;
            }
            p.apply(m)
        }
        None => {
            p.stm = Col::W;
            clear_attackers(&mut p, Col::B);
            p
        }
    };
    if out.validate().is_err() {
        return None;
    }
    let out = if t.chance(1, 2) { out.mirror_v() } else { out };
    let out = if t.chance(1, 2) { out.mirror_h() } else { out };
    if out.validate().is_err() {
        return None;
    }
    Some((out, tag))
}

// ------------------------------------------------------------------ planted: en passant uncovers a line

/// Positions (White to capture, then mirrored at random) in which the en-passant capture removes
/// the last blocker - or one of exactly two blockers - on a line between a slider of the capturing
/// side and the enemy king: the rank both pawns leave, or a diagonal through the captured pawn's
/// square.  After the capture the opponent is in (discovered) check or has a freshly pinned piece;
/// move application has to notice that from the pawn that is *removed*, which is neither the
/// source nor the destination of the move.  Built as a validated predecessor plus the reference
/// model's double push (when the line is a diagonal the pusher stands in check before the push and
/// the push interposes).
pub fn plant_ep_discovery(t: &mut Tape) -> Option<Pos> {
    let mut p = Pos::empty();
    let fc = t.below(8) as i8;
    let dx: i8 = if t.chance(1, 2) { 1 } else { -1 };
    let fd = fc + dx;
    if !(0..8).contains(&fd) {
        return None;
    }
    let pw = mk(fc, 4)?;
    let home = mk(fd, 6)?;
    let mid = mk(fd, 5)?;
    let land = mk(fd, 4)?;
    p.board[pw as usize] = Some((Col::W, Kind::P));
    p.board[home as usize] = Some((Col::B, Kind::P));
    let mut reserved = bit(mid) | bit(land);
    // the line through `land`: the rank (both pawns on it) or one of the two diagonals
    let (lx, ly): (i8, i8) = match t.below(4) {
        0 | 1 => (1, 0),
        2 => (1, 1),
        _ => (1, -1),
    };
    // slider on one side, king on the other
    let side: i8 = if t.chance(1, 2) { 1 } else { -1 };
    let ds = 1 + t.below(4) as i8;
    let dk = 1 + t.below(4) as i8;
    let mut ss = mk(fd + side * lx * ds, 4 + side * ly * ds)?;
    let mut ks = mk(fd - side * lx * dk, 4 - side * ly * dk)?;
    // on the rank the capturer stands next to `land`: slider / king must lie beyond it
    if ly == 0 {
        if ss == pw {
            ss = mk(fc + (fc - fd) * ds, 4)?;
        }
        if ks == pw {
            ks = mk(fc + (fc - fd) * dk, 4)?;
        }
    }
    if ss == ks || p.at(ss).is_some() || p.at(ks).is_some() || ss == mid || ks == mid || ss == home || ks == home {
        return None;
    }
    let slider = if ly == 0 { if t.chance(1, 2) { Kind::R } else { Kind::Q } } else if t.chance(1, 2) { Kind::B } else { Kind::Q };
    p.board[ss as usize] = Some((Col::W, slider));
    p.board[ks as usize] = Some((Col::B, Kind::K));
    // squares strictly between slider and king stay empty, except for an optional second blocker
    let (sf, sr, kf, kr) = (file_of(ss), rank_of(ss), file_of(ks), rank_of(ks));
    let steps = (kf - sf).abs().max((kr - sr).abs());
    let (ux, uy) = ((kf - sf).signum(), (kr - sr).signum());
    let mut between: Vec<Sq> = vec![];
    for i in 1..steps {
        between.push(mk(sf + ux * i, sr + uy * i)?);
    }
    let free: Vec<Sq> = between.iter().copied().filter(|&q| q != land && q != pw && p.at(q).is_none()).collect();
    let second = if !free.is_empty() && t.chance(1, 3) { Some(free[t.below(free.len())]) } else { None };
    for q in &between {
        if Some(*q) != second {
            reserved |= bit(*q);
        }
    }
    if let Some(q) = second {
        let k = [Kind::N, Kind::B, Kind::R, Kind::Q, Kind::P][t.below(5)];
        if k == Kind::P && (rank_of(q) == 0 || rank_of(q) == 7) {
            return None;
        }
        p.board[q as usize] = Some((Col::B, k));
    }
    // white king away from the black king, off the reserved squares
    let cands: Vec<Sq> = (0..64u8).filter(|&s| p.at(s).is_none() && reserved >> s & 1 == 0 && !adjacent(s, ks)).collect();
    if cands.is_empty() {
        return None;
    }
    p.board[cands[t.below(cands.len())] as usize] = Some((Col::W, Kind::K));
    // a few bystanders of either colour off the line
    for _ in 0..t.below(5) {
        let c = if t.chance(1, 2) { Col::W } else { Col::B };
        let k = [Kind::N, Kind::B, Kind::R, Kind::P, Kind::Q][t.below(5)];
        let spots: Vec<Sq> = (0..64u8).filter(|&s| p.at(s).is_none() && reserved >> s & 1 == 0 && (k != Kind::P || (rank_of(s) != 0 && rank_of(s) != 7))).collect();
        if spots.is_empty() {
            break;
        }
        p.board[spots[t.below(spots.len())] as usize] = Some((c, k));
    }
    p.stm = Col::B;
    // the side that is not to move before the push must not be in check
    clear_attackers(&mut p, Col::W);
    let push = Mv::new(home, land, None);
    if p.at(pw) != Some((Col::W, Kind::P)) || p.at(ss) != Some((Col::W, slider)) || p.validate().is_err() || !p.pseudo_moves().contains(&push) || !p.is_legal(push) {
        return None;
    }
    let out = p.apply(push);
    if out.validate().is_err() {
        return None;
    }
    let out = if t.chance(1, 2) { out.mirror_v() } else { out };
    let out = if t.chance(1, 2) { out.mirror_h() } else { out };
    if out.validate().is_err() {
        return None;
    }
    Some(out)
}
