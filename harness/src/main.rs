//! vcheck <ID> <quick|thorough>        run the check for one property
//! vcheck replay <file>                 re-run a saved failing case (no generator involved)
//! vcheck selftest                      reference-model self test and corpus validation

use chess_verif::engine::{self, Cfg, Tier};
use chess_verif::{gen, props, refmodel};

fn env_u64(name: &str, default: u64) -> u64 {
    std::env::var(name).ok().and_then(|v| v.trim().parse::<u64>().ok()).unwrap_or(default)
}

fn main() {
    let args: Vec<String> = std::env::args().collect();
    if args.len() < 2 {
        eprintln!("usage: vcheck <ID> <quick|thorough> | vcheck replay <file> | vcheck selftest");
        std::process::exit(2);
    }
    engine::install_panic_hook();
    let root = std::env::var("VERIF_ROOT").unwrap_or_else(|_| engine::VERIF_ROOT.to_string());
    // watchdog: a hang or an over-long run is inconclusive, never a violation
    let limit = env_u64("VERIF_WATCHDOG_S", 0);
    if limit > 0 {
        std::thread::spawn(move || {
            std::thread::sleep(std::time::Duration::from_secs(limit));
            eprintln!("INCONCLUSIVE watchdog: run exceeded {} s", limit);
            std::process::exit(2);
        });
    }
    // trusted base must be sane before anything is judged with it
    let deep = args.get(2).map(|s| s == "thorough").unwrap_or(false);
    match refmodel::self_test(deep) {
        Ok(_) => {}
        Err(e) => {
            eprintln!("INCONCLUSIVE reference model self-test failed: {}", e);
            std::process::exit(2);
        }
    }
    if let Err(e) = gen::load_curated() {
        eprintln!("INCONCLUSIVE curated corpus: {}", e);
        std::process::exit(2);
    }
    match args[1].as_str() {
        "genstats" => {
            // generator health: rejection reasons of the direct set-up generator
            use proptest::strategy::{Strategy, ValueTree};
            let mut runner = proptest::test_runner::TestRunner::deterministic();
            let strat = proptest::collection::vec(proptest::prelude::any::<u16>(), 96);
            let mut ok = 0;
            let mut reasons: std::collections::BTreeMap<String, u32> = Default::default();
            for _ in 0..20000 {
                let tape = strat.new_tree(&mut runner).unwrap().current();
                let mut t = gen::Tape::new(&tape);
                match gen::setup_position_why(&mut t) {
                    Ok(_) => ok += 1,
                    Err(e) => *reasons.entry(e).or_insert(0) += 1,
                }
            }
            println!("setup_position: ok {} rejected {:?}", ok, reasons);
            // the planted generators: acceptance rate and how often the planted feature is really there
            let strat = proptest::collection::vec(proptest::prelude::any::<u16>(), 160);
            let (mut n_box, mut box_tags): (u32, std::collections::BTreeMap<String, u32>) = (0, Default::default());
            let (mut n_near, mut near_term) = (0u32, 0u32);
            let (mut n_disc, mut disc_check, mut disc_pin, mut disc_ep_legal) = (0u32, 0u32, 0u32, 0u32);
            for _ in 0..20000 {
                let tape = strat.new_tree(&mut runner).unwrap().current();
                if let Some((p, tag)) = gen::plant_boxed(&mut gen::Tape::new(&tape)) {
                    n_box += 1;
                    *box_tags.entry(format!("{} / {} legal moves", tag, p.legal_moves().len().min(3))).or_insert(0) += 1;
                }
                if let Some(p) = gen::plant_ep_near_king(&mut gen::Tape::new(&tape)) {
                    n_near += 1;
                    if p.legal_moves().iter().any(|m| p.is_ep_capture(*m) && p.apply(*m).legal_moves().is_empty()) {
                        near_term += 1;
                    }
                }
                if let Some(p) = gen::plant_ep_discovery(&mut gen::Tape::new(&tape)) {
                    n_disc += 1;
                    for m in p.legal_moves() {
                        if p.is_ep_capture(m) {
                            disc_ep_legal += 1;
                            let n = p.apply(m);
                            // check given by a piece other than the capturing pawn = discovered
                            if n.checkers().iter().any(|s| *s != m.to) {
                                disc_check += 1;
                            }
                            if !n.pinned().is_empty() {
                                disc_pin += 1;
                            }
                            break;
                        }
                    }
                }
            }
            // the two generators added in round 14
            {
                let strat400 = proptest::collection::vec(proptest::prelude::any::<u16>(), 400);
                let (mut n_long, mut len_hist, mut n_sl, mut sl_hist) = (0u32, std::collections::BTreeMap::<usize, u32>::new(), 0u32, std::collections::BTreeMap::<usize, u32>::new());
                for _ in 0..20000 {
                    let tape = strat400.new_tree(&mut runner).unwrap().current();
                    if let Some(p) = gen::plant_long_fen(&mut gen::Tape::new(&tape)) {
                        n_long += 1;
                        *len_hist.entry(p.fen().len()).or_insert(0) += 1;
                    }
                    if let Some(p) = gen::plant_many_sliders(&mut gen::Tape::new(&tape)) {
                        n_sl += 1;
                        // enemy sliders on the empty-board lines through the king of the side to move after a pass
                        let owner = if p.men(chess_verif::refmodel::Col::W) >= p.men(chess_verif::refmodel::Col::B) { chess_verif::refmodel::Col::W } else { chess_verif::refmodel::Col::B };
                        let k = p.king_sq(owner.other()).unwrap();
                        let n = (0..64u8)
                            .filter(|&s| matches!(p.at(s), Some((c, chess_verif::refmodel::Kind::Q | chess_verif::refmodel::Kind::R | chess_verif::refmodel::Kind::B)) if c == owner))
                            .filter(|&s| {
                                let (df, dr) = ((chess_verif::refmodel::file_of(s) - chess_verif::refmodel::file_of(k)).abs(), (chess_verif::refmodel::rank_of(s) - chess_verif::refmodel::rank_of(k)).abs());
                                df == 0 || dr == 0 || df == dr
                            })
                            .count();
                        *sl_hist.entry(n).or_insert(0) += 1;
                    }
                }
                println!("plant_long_fen: accepted {} of 20000; FEN lengths {:?}", n_long, len_hist);
                println!("plant_many_sliders: accepted {} of 20000; sliders on the lines through the enemy king {:?}", n_sl, sl_hist);
            }
            println!("plant_boxed: accepted {} of 20000; {:?}", n_box, box_tags);
            println!("plant_ep_near_king: accepted {} of 20000; en-passant capture ends the game in {}", n_near, near_term);
            println!("plant_ep_discovery: accepted {} of 20000; en-passant capture legal in {}, discovers a check in {}, leaves a pinned piece in {}", n_disc, disc_ep_legal, disc_check, disc_pin);
            std::process::exit(0);
        }
        "selftest" => {
            println!("reference model self-test ok; curated positions: {}", gen::curated().len());
            std::process::exit(0);
        }
        "replay" => {
            let path = args.get(2).expect("replay file");
            let prop = std::fs::read_to_string(path)
                .ok()
                .and_then(|t| serde_json::from_str::<serde_json::Value>(&t).ok())
                .and_then(|v| v["property"].as_str().map(|s| s.to_string()))
                .unwrap_or_else(|| "unknown".into());
            chess_verif::crash::install(&root, &prop);
            chess_verif::crash::register(0);
            std::process::exit(props::replay_file(&root, path));
        }
        id => {
            let tier = match args.get(2).map(|s| s.as_str()) {
                Some("quick") | None => Tier::Quick,
                Some("thorough") => Tier::Thorough,
                Some(t) => {
                    eprintln!("unknown tier {}", t);
                    std::process::exit(2);
                }
            };
            let cfg = Cfg {
                id: id.to_string(),
                tier,
                seed: env_u64("VERIF_SEED", 1),
                shards: env_u64("VERIF_SHARDS", 16) as usize,
                scale: std::env::var("VERIF_SCALE").ok().and_then(|v| v.parse::<f64>().ok()).unwrap_or(1.0),
                root,
                replay: Some(props::replay_case),
            };
            chess_verif::crash::install(&cfg.root, &cfg.id);
            std::process::exit(props::run(&cfg));
        }
    }
}
