//! vcheck <ID> <quick|thorough>        run the check for one property
//! vcheck replay <file>                 re-run a saved failing case (no generator involved)
//! vcheck selftest                      reference-model self test and corpus validation

use chess_verif::engine::{self, Cfg, Tier};
use chess_verif::{gen, props, refmodel};

fn env_u64(name: &str, default: u64) -> u64 {
    std::env::var(name).ok().and_then(|v| v.trim().parse::<u64>().ok()).unwrap_or(default)
}

fn main() {
    let args: Vec<String> = std::env::args().collect();
    if args.len() < 2 {
        eprintln!("usage: vcheck <ID> <quick|thorough> | vcheck replay <file> | vcheck selftest");
        std::process::exit(2);
    }
    engine::install_panic_hook();
    let root = std::env::var("VERIF_ROOT").unwrap_or_else(|_| engine::VERIF_ROOT.to_string());
    // watchdog: a hang or an over-long run is inconclusive, never a violation
    let limit = env_u64("VERIF_WATCHDOG_S", 0);
    if limit > 0 {
        std::thread::spawn(move || {
            std::thread::sleep(std::time::Duration::from_secs(limit));
            eprintln!("INCONCLUSIVE watchdog: run exceeded {} s", limit);
            std::process::exit(2);
        });
    }
    // trusted base must be sane before anything is judged with it
    let deep = args.get(2).map(|s| s == "thorough").unwrap_or(false);
    match refmodel::self_test(deep) {
        Ok(_) => {}
        Err(e) => {
            eprintln!("INCONCLUSIVE reference model self-test failed: {}", e);
            std::process::exit(2);
        }
    }
    if let Err(e) = gen::load_curated() {
        eprintln!("INCONCLUSIVE curated corpus: {}", e);
        std::process::exit(2);
    }
    match args[1].as_str() {
        "genstats" => {
            // generator health: rejection reasons of the direct set-up generator
            use proptest::strategy::{Strategy, ValueTree};
            let mut runner = proptest::test_runner::TestRunner::deterministic();
            let strat = proptest::collection::vec(proptest::prelude::any::<u16>(), 96);
            let mut ok = 0;
            let mut reasons: std::collections::BTreeMap<String, u32> = Default::default();
            for _ in 0..20000 {
                let tape = strat.new_tree(&mut runner).unwrap().current();
                let mut t = gen::Tape::new(&tape);
                match gen::setup_position_why(&mut t) {
                    Ok(_) => ok += 1,
                    Err(e) => *reasons.entry(e).or_insert(0) += 1,
                }
            }
            println!("ok {} rejected {:?}", ok, reasons);
            std::process::exit(0);
        }
        "selftest" => {
            println!("reference model self-test ok; curated positions: {}", gen::curated().len());
            std::process::exit(0);
        }
        "replay" => {
            let path = args.get(2).expect("replay file");
            let prop = std::fs::read_to_string(path)
                .ok()
                .and_then(|t| serde_json::from_str::<serde_json::Value>(&t).ok())
                .and_then(|v| v["property"].as_str().map(|s| s.to_string()))
                .unwrap_or_else(|| "unknown".into());
            chess_verif::crash::install(&root, &prop);
            chess_verif::crash::register(0);
            std::process::exit(props::replay_file(&root, path));
        }
        id => {
            let tier = match args.get(2).map(|s| s.as_str()) {
                Some("quick") | None => Tier::Quick,
                Some("thorough") => Tier::Thorough,
                Some(t) => {
                    eprintln!("unknown tier {}", t);
                    std::process::exit(2);
                }
            };
            let cfg = Cfg {
                id: id.to_string(),
                tier,
                seed: env_u64("VERIF_SEED", 1),
                shards: env_u64("VERIF_SHARDS", 16) as usize,
                scale: std::env::var("VERIF_SCALE").ok().and_then(|v| v.parse::<f64>().ok()).unwrap_or(1.0),
                root,
                replay: Some(props::replay_case),
            };
            chess_verif::crash::install(&cfg.root, &cfg.id);
            std::process::exit(props::run(&cfg));
        }
    }
}
