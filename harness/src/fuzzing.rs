//! Glue for the libFuzzer targets under /verif/fuzz: bytes -> structured case -> the SAME check
//! functions the proptest path uses.  A violation writes the replay file, prints the VIOLATION
//! line and aborts (libFuzzer then saves the input as a crash artifact).

use crate::engine::{self, Ctx, Known, Tier, Violation};
use crate::gen::RawHist;
use std::cell::RefCell;
use std::sync::Arc;

thread_local! {
    static CTX: RefCell<Option<Ctx>> = const { RefCell::new(None) };
}

pub fn root() -> String {
    std::env::var("VERIF_ROOT").unwrap_or_else(|_| engine::VERIF_ROOT.to_string())
}

pub fn run(prop: &str, f: impl FnOnce(&mut Ctx) -> Result<(), Violation>) {
    CTX.with(|c| {
        let mut c = c.borrow_mut();
        if c.is_none() {
            engine::install_panic_hook_verbose();
            let mut ctx = Ctx::new(prop, Tier::Thorough, Arc::new(Known::load(&root())));
            // statistics are not kept across millions of fuzz iterations
            ctx.frozen = true;
            *c = Some(ctx);
        }
        let ctx = c.as_mut().unwrap();
        ctx.prop = prop.to_string();
        if let Err(v) = f(ctx) {
            if v.sig == "INFRA" {
                return;
            }
            let path = engine::write_replay(&root(), &v);
            println!("VIOLATION property={} replay={}", v.prop, path);
            println!("  signature={} :: {}", v.sig, v.what);
            std::process::abort();
        }
    });
}

pub fn tape_of(data: &[u8]) -> Vec<u16> {
    data.chunks(2).map(|c| if c.len() == 2 { u16::from_le_bytes([c[0], c[1]]) } else { c[0] as u16 }).collect()
}

/// bytes -> raw history case: start selector, policy, 96-cell set-up tape, then choices.
pub fn raw_hist_of(data: &[u8]) -> RawHist {
    let t = tape_of(data);
    let start_sel = t.first().copied().unwrap_or(0);
    let policy = (t.get(1).copied().unwrap_or(0) % 6) as u8;
    let mut setup: Vec<u16> = t.iter().skip(2).take(96).copied().collect();
    setup.resize(96, 0);
    let choices: Vec<u16> = t.iter().skip(98).copied().collect();
    RawHist { start_sel, setup, policy, choices }
}
