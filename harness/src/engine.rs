//! Sharded property-test driver: proptest `TestRunner` per shard, counters, classification,
//! known-finding lookup, replay files and evidence writer.

use proptest::strategy::Strategy;
use proptest::test_runner::{Config, RngSeed, TestCaseError, TestError, TestRunner};
use serde_json::{json, Value};
use std::cell::RefCell;
use std::collections::hash_map::DefaultHasher;
use std::collections::{BTreeMap, BTreeSet, HashSet};
use std::hash::{Hash, Hasher};
use std::panic::{catch_unwind, AssertUnwindSafe};
use std::sync::Arc;
use std::time::Instant;

pub const VERIF_ROOT: &str = "/verif";

#[derive(Clone, Copy, PartialEq, Eq, Debug)]
pub enum Tier {
    Quick,
    Thorough,
}
impl Tier {
    pub fn name(self) -> &'static str {
        match self {
            Tier::Quick => "quick",
            Tier::Thorough => "thorough",
        }
    }
    /// pick by tier
    pub fn pick<T>(self, quick: T, thorough: T) -> T {
        match self {
            Tier::Quick => quick,
            Tier::Thorough => thorough,
        }
    }
}

#[derive(Clone, Debug)]
pub struct Cfg {
    pub id: String,
    pub tier: Tier,
    pub seed: u64,
    pub shards: usize,
    /// multiplies every case count (used by the self-test scripts for smoke runs)
    pub scale: f64,
    pub root: String,
    /// replay decoder used for the saved regression cases under <root>/golden/<ID>-*.json
    pub replay: Option<fn(&str, &mut Ctx, &Value) -> Result<(), Violation>>,
}
impl Cfg {
    pub fn n(&self, quick: u64, thorough: u64) -> u64 {
        let base = self.tier.pick(quick, thorough) as f64 * self.scale;
        (base.ceil() as u64).max(1)
    }
    /// cases per shard for a total of `quick`/`thorough` cases
    pub fn per_shard(&self, quick: u64, thorough: u64) -> u32 {
        let t = self.n(quick, thorough);
        ((t + self.shards as u64 - 1) / self.shards as u64).max(1) as u32
    }
}

#[derive(Clone, Debug)]
pub struct Violation {
    pub prop: String,
    /// short stable string naming what failed (key for the known-findings file)
    pub sig: String,
    pub what: String,
    /// explicit, generator-independent description of the failing case
    pub case: Value,
}

pub fn fp<T: Hash>(t: &T) -> u64 {
    let mut h = DefaultHasher::new();
    t.hash(&mut h);
    h.finish()
}

#[derive(Default, Debug, Clone)]
pub struct Known {
    /// (property, signature) -> description
    pub known: BTreeMap<(String, String), String>,
    pub fixed: Vec<String>,
}
impl Known {
    pub fn load(root: &str) -> Known {
        let mut k = Known::default();
        let path = format!("{}/KNOWN_FINDINGS.txt", root);
        let text = std::fs::read_to_string(&path).unwrap_or_default();
        for line in text.lines() {
            let line = line.trim();
            if let Some(rest) = line.strip_prefix("known:") {
                let mut prop = None;
                let mut sig = None;
                let mut desc = vec![];
                for tok in rest.split_whitespace() {
                    if let Some(p) = tok.strip_prefix("property=") {
                        prop = Some(p.to_string());
                    } else if let Some(s) = tok.strip_prefix("signature=") {
                        sig = Some(s.to_string());
                    } else {
                        desc.push(tok);
                    }
                }
                if let (Some(p), Some(s)) = (prop, sig) {
                    k.known.insert((p, s), desc.join(" "));
                }
            } else if line.starts_with("fixed:") {
                k.fixed.push(line.to_string());
            }
        }
        k
    }
}

thread_local! {
    static LAST_PANIC: RefCell<String> = RefCell::new(String::new());
}

pub fn install_panic_hook() {
    std::panic::set_hook(Box::new(|info| {
        let msg = if let Some(s) = info.payload().downcast_ref::<&str>() {
            s.to_string()
        } else if let Some(s) = info.payload().downcast_ref::<String>() {
            s.clone()
        } else {
            "<non-string panic>".to_string()
        };
        let loc = info.location().map(|l| format!("{}:{}", l.file(), l.line())).unwrap_or_default();
        LAST_PANIC.with(|p| *p.borrow_mut() = format!("{} at {}", msg, loc));
    }));
}
/// Hook for fuzz targets: remember the message and still print it (the process dies anyway).
pub fn install_panic_hook_verbose() {
    std::panic::set_hook(Box::new(|info| {
        eprintln!("panic: {}", info);
        LAST_PANIC.with(|p| *p.borrow_mut() = format!("{}", info));
    }));
}
pub fn last_panic() -> String {
    LAST_PANIC.with(|p| p.borrow().clone())
}
/// Signature for a panic caught while a case was executing: a panic raised by the harness's own
/// code (location `src/...`, the harness crate is built from its own directory; the library
/// is a path dependency and reports absolute paths) is an infrastructure problem (exit 2), never a
/// verdict about the library.
pub fn panic_signature() -> &'static str {
    let p = last_panic();
    match p.rsplit(" at ").next() {
        Some(loc) if loc.starts_with("src/") => "INFRA",
        _ => "panic",
    }
}

/// Run `f`, converting a panic into `Err(message)`.
pub fn guarded<T>(f: impl FnOnce() -> T) -> Result<T, String> {
    match catch_unwind(AssertUnwindSafe(f)) {
        Ok(v) => Ok(v),
        Err(_) => Err(last_panic()),
    }
}

/// Per-shard statistics and failure policy.
pub struct Ctx {
    pub prop: String,
    pub tier: Tier,
    pub evals: u64,
    pub distinct: HashSet<u64>,
    pub classes: BTreeMap<String, u64>,
    pub samples: Vec<Value>,
    pub sample_cap: usize,
    pub sample_every: u64,
    sample_tick: u64,
    pub known: Arc<Known>,
    pub known_hits: BTreeMap<String, (u64, String, Value)>,
    pub rejected: u64,
    pub excluded: u64,
    pub extra: BTreeMap<String, u64>,
    /// set while proptest is shrinking: statistics are no longer counted
    pub frozen: bool,
    /// the explicit case currently being executed (for panics)
    pub current: Option<Value>,
    /// free-form (hash, identity) pairs collected by a property for a cross-shard merge
    pub bag: Vec<(u64, u64)>,
}

impl Ctx {
    pub fn new(prop: &str, tier: Tier, known: Arc<Known>) -> Ctx {
        Ctx {
            prop: prop.to_string(),
            tier,
            evals: 0,
            distinct: HashSet::new(),
            classes: BTreeMap::new(),
            samples: vec![],
            sample_cap: 6,
            sample_every: 1,
            sample_tick: 0,
            known,
            known_hits: BTreeMap::new(),
            rejected: 0,
            excluded: 0,
            extra: BTreeMap::new(),
            frozen: false,
            current: None,
            bag: vec![],
        }
    }
    /// Remember the explicit case about to be executed (for panics and fatal signals).
    pub fn set_case(&mut self, v: Value) {
        crate::crash::set_case(&v.to_string());
        self.current = Some(v);
    }
    pub fn eval(&mut self) {
        if !self.frozen {
            self.evals += 1;
        }
    }
    pub fn evals_add(&mut self, n: u64) {
        if !self.frozen {
            self.evals += n;
        }
    }
    pub fn class(&mut self, name: &str) {
        if !self.frozen {
            *self.classes.entry(name.to_string()).or_insert(0) += 1;
        }
    }
    pub fn class_n(&mut self, name: &str, n: u64) {
        if !self.frozen && n > 0 {
            *self.classes.entry(name.to_string()).or_insert(0) += n;
        }
    }
    pub fn count(&mut self, name: &str, n: u64) {
        if !self.frozen {
            *self.extra.entry(name.to_string()).or_insert(0) += n;
        }
    }
    pub fn nontrivial(&mut self, fingerprint: u64) {
        // counted conservatively: the per-shard set stops growing at 3M entries
        if !self.frozen && self.distinct.len() < 3_000_000 {
            self.distinct.insert(fingerprint);
        }
    }
    pub fn reject(&mut self) {
        if !self.frozen {
            self.rejected += 1;
        }
    }
    /// keep a few samples, spread over the run
    pub fn sample(&mut self, f: impl FnOnce() -> Value) {
        if self.frozen {
            return;
        }
        self.sample_tick += 1;
        if self.sample_tick % self.sample_every == 0 && self.samples.len() < self.sample_cap {
            self.samples.push(f());
            self.sample_every = self.sample_every.saturating_mul(7);
        }
    }
    pub fn violation(&self, sig: &str, what: String, case: Value) -> Violation {
        Violation { prop: self.prop.clone(), sig: sig.to_string(), what, case }
    }
    /// Report a failed assertion.  Listed known findings are counted and the search goes on
    /// (`Ok`); anything else is a violation (`Err`).
    pub fn fail(&mut self, sig: &str, what: String, case: Value) -> Result<(), Violation> {
        let key = (self.prop.clone(), sig.to_string());
        if self.known.known.contains_key(&key) {
            if !self.frozen {
                let e = self.known_hits.entry(sig.to_string()).or_insert((0, what, case));
                e.0 += 1;
                self.excluded += 1;
            }
            Ok(())
        } else {
            Err(self.violation(sig, what, case))
        }
    }
}

fn shard_seed(cfg: &Cfg, shard: usize, stream: u64) -> u64 {
    fp(&(cfg.seed, cfg.id.as_str(), shard as u64, stream))
}

/// Drive `check` with `cases` values of `strat` (deterministic in `seed`), shrinking a failure.
pub fn pbt<S>(
    ctx: &mut Ctx,
    seed: u64,
    cases: u32,
    strat: &S,
    check: impl Fn(&mut Ctx, &S::Value) -> Result<(), Violation>,
) -> Result<(), Violation>
where
    S: Strategy,
    S::Value: Clone + std::fmt::Debug,
{
    if cases == 0 {
        return Ok(());
    }
    let config = Config {
        cases,
        failure_persistence: None,
        rng_seed: RngSeed::Fixed(seed),
        max_shrink_iters: 4000,
        // a wall-clock cap on *shrinking* only (the failure is already established; the cap never decides a verdict)
        max_shrink_time: 90_000,
        max_global_rejects: 1 << 30,
        ..Config::default()
    };
    let mut runner = TestRunner::new(config);
    let cell = RefCell::new(ctx);
    let first: RefCell<Option<Violation>> = RefCell::new(None);
    let guarded_check = |c: &mut Ctx, v: &S::Value| -> Result<(), Violation> {
        c.current = None;
        crate::crash::set_case(&serde_json::to_string(&format!("(raw generator value) {:?}", v)).unwrap_or_default());
        match catch_unwind(AssertUnwindSafe(|| check(c, v))) {
            Ok(r) => r,
            Err(_) => {
                let case = c.current.clone().unwrap_or_else(|| json!({ "raw": format!("{:?}", v) }));
                let what = format!("panic: {}", last_panic());
                c.fail(panic_signature(), what, case)
            }
        }
    };
    let res = runner.run(strat, |v| {
        let mut c = cell.borrow_mut();
        match guarded_check(&mut c, &v) {
            Ok(()) => Ok(()),
            Err(viol) => {
                c.frozen = true;
                let mut f = first.borrow_mut();
                if f.is_none() {
                    *f = Some(viol.clone());
                }
                Err(TestCaseError::fail(viol.sig))
            }
        }
    });
    let ctx = cell.into_inner();
    match res {
        Ok(()) => Ok(()),
        Err(TestError::Fail(_, minimal)) => {
            ctx.frozen = true;
            let r = guarded_check(ctx, &minimal);
            ctx.frozen = false;
            match r {
                Err(v) => Err(v),
                // not reproducible on the shrunk value: report the original failure
                Ok(()) => Err(first.into_inner().expect("failure recorded")),
            }
        }
        Err(TestError::Abort(reason)) => {
            ctx.frozen = false;
            Err(Violation {
                prop: ctx.prop.clone(),
                sig: "INFRA".into(),
                what: format!("proptest aborted: {}", reason),
                case: Value::Null,
            })
        }
    }
}

/// Run one explicit case under the same panic policy as `pbt`.
pub fn run_one(ctx: &mut Ctx, check: impl FnOnce(&mut Ctx) -> Result<(), Violation>) -> Result<(), Violation> {
    ctx.current = None;
    crate::crash::set_case("\"(case not described yet)\"");
    match catch_unwind(AssertUnwindSafe(|| check(ctx))) {
        Ok(r) => r,
        Err(_) => {
            let case = ctx.current.clone().unwrap_or(Value::Null);
            let what = format!("panic: {}", last_panic());
            ctx.fail(panic_signature(), what, case)
        }
    }
}

pub struct Report {
    pub cfg: Cfg,
    pub ctxs: Vec<Ctx>,
    pub violations: Vec<Violation>,
    pub wall_s: f64,
}

/// Run `body(shard, ctx)` on `cfg.shards` threads.  `body` receives a per-shard seed function.
pub fn run_shards(
    cfg: &Cfg,
    body: impl Fn(usize, &mut Ctx, &dyn Fn(u64) -> u64) -> Result<(), Violation> + Sync,
) -> Report {
    let known = Arc::new(Known::load(&cfg.root));
    let t0 = Instant::now();
    let mut out: Vec<(Ctx, Option<Violation>)> = vec![];
    std::thread::scope(|s| {
        let mut hs = vec![];
        for shard in 0..cfg.shards {
            let known = known.clone();
            let body = &body;
            let cfg2 = cfg.clone();
            hs.push(
                std::thread::Builder::new()
                    .stack_size(64 << 20)
                    .spawn_scoped(s, move || {
                        crate::crash::register(shard);
                        let mut ctx = Ctx::new(&cfg2.id, cfg2.tier, known);
                        let seedf = |stream: u64| shard_seed(&cfg2, shard, stream);
                        let r = match catch_unwind(AssertUnwindSafe(|| {
                            if shard == 0 {
                                replay_golden(&cfg2, &mut ctx)?;
                            }
                            body(shard, &mut ctx, &seedf)
                        })) {
                            Ok(r) => r,
                            Err(_) => Err(Violation {
                                prop: cfg2.id.clone(),
                                sig: "INFRA".into(),
                                what: format!("harness panic outside a case: {}", last_panic()),
                                case: Value::Null,
                            }),
                        };
                        crate::crash::clear_case();
                        (ctx, r.err())
                    })
                    .unwrap(),
            );
        }
        for h in hs {
            out.push(h.join().expect("shard thread"));
        }
    });
    let mut ctxs = vec![];
    let mut violations = vec![];
    for (c, v) in out {
        ctxs.push(c);
        if let Some(v) = v {
            violations.push(v);
        }
    }
    Report { cfg: cfg.clone(), ctxs, violations, wall_s: t0.elapsed().as_secs_f64() }
}

/// Seconds-long replay tier: every saved regression case of this property is re-run first.
fn replay_golden(cfg: &Cfg, ctx: &mut Ctx) -> Result<(), Violation> {
    let f = match cfg.replay {
        Some(f) => f,
        None => return Ok(()),
    };
    let dir = format!("{}/golden", cfg.root);
    let mut files: Vec<String> = match std::fs::read_dir(&dir) {
        Ok(rd) => rd.filter_map(|e| e.ok()).map(|e| e.file_name().to_string_lossy().to_string()).collect(),
        Err(_) => return Ok(()),
    };
    files.sort();
    for name in files {
        if !name.starts_with(&format!("{}-", cfg.id)) || !name.ends_with(".json") {
            continue;
        }
        let text = std::fs::read_to_string(format!("{}/{}", dir, name)).unwrap_or_default();
        let v: Value = match serde_json::from_str(&text) {
            Ok(v) => v,
            Err(_) => continue,
        };
        let case = if v.get("case").is_some() { v["case"].clone() } else { v.clone() };
        ctx.class("golden:saved-case-replayed");
        let id = cfg.id.clone();
        run_one(ctx, |ctx| f(&id, ctx, &case))?;
    }
    Ok(())
}

fn sanitize(s: &str) -> String {
    s.chars().map(|c| if c.is_ascii_alphanumeric() || c == '-' || c == '_' { c } else { '_' }).take(60).collect()
}

pub fn write_replay(root: &str, v: &Violation) -> String {
    let dir = format!("{}/replays/{}", root, v.prop);
    let _ = std::fs::create_dir_all(&dir);
    let body = json!({ "property": v.prop, "signature": v.sig, "what": v.what, "case": v.case });
    let text = serde_json::to_string_pretty(&body).unwrap();
    let path = format!("{}/{}-{:08x}.json", dir, sanitize(&v.sig), fp(&text) as u32);
    let _ = std::fs::write(&path, text);
    path
}

pub struct EvidenceSpec {
    pub rule: String,
    pub assumptions: Vec<String>,
    pub trusted_base: Vec<String>,
    pub exhaustive: Option<bool>,
    pub extra: Value,
}

/// Merge shard statistics, print the verdict lines, write the evidence file, return exit code.
pub fn finish(report: Report, spec: EvidenceSpec) -> i32 {
    let cfg = &report.cfg;
    let mut evals = 0u64;
    let mut distinct: HashSet<u64> = HashSet::new();
    let mut classes: BTreeMap<String, u64> = BTreeMap::new();
    let mut extra: BTreeMap<String, u64> = BTreeMap::new();
    let mut samples: Vec<Value> = vec![];
    let mut rejected = 0;
    let mut excluded = 0;
    let mut known_hits: BTreeMap<String, (u64, String, Value)> = BTreeMap::new();
    for c in &report.ctxs {
        evals += c.evals;
        distinct.extend(c.distinct.iter().copied());
        for (k, v) in &c.classes {
            *classes.entry(k.clone()).or_insert(0) += v;
        }
        for (k, v) in &c.extra {
            *extra.entry(k.clone()).or_insert(0) += v;
        }
        rejected += c.rejected;
        excluded += c.excluded;
        for (k, v) in &c.known_hits {
            let e = known_hits.entry(k.clone()).or_insert((0, v.1.clone(), v.2.clone()));
            e.0 += v.0;
        }
    }
    // samples: one per shard, taken at different depths of the run (early golden cases as well
    // as late generated ones), capped
    for (k, c) in report.ctxs.iter().enumerate() {
        if !c.samples.is_empty() && samples.len() < 12 {
            let i = (c.samples.len() - 1).saturating_sub(k % c.samples.len());
            samples.push(c.samples[i].clone());
        }
    }
    let mut infra = false;
    let mut real: Vec<&Violation> = vec![];
    for v in &report.violations {
        if v.sig == "INFRA" {
            infra = true;
            eprintln!("INCONCLUSIVE property={} {}", cfg.id, v.what);
        } else {
            real.push(v);
        }
    }
    for (sig, (n, what, _)) in &known_hits {
        println!("KNOWN-FINDING: property={} signature={} hits={} {}", cfg.id, sig, n, what);
    }
    let mut seen = BTreeSet::new();
    let mut replay_paths = vec![];
    for v in &real {
        if seen.insert(v.sig.clone()) {
            let path = write_replay(&cfg.root, v);
            println!("VIOLATION property={} replay={}", cfg.id, path);
            println!("  signature={} :: {}", v.sig, v.what);
            replay_paths.push(path);
        }
    }
    let empty_classes: Vec<&String> = classes.iter().filter(|(_, v)| **v == 0).map(|(k, _)| k).collect();
    let mut coverage = json!({
        "evaluations": evals,
        "distinct_nontrivial": distinct.len(),
        "rule": spec.rule,
        "samples": samples,
        "classes": classes,
        "classes_empty": empty_classes,
        "counters": extra,
        "rejected_by_generator": rejected,
        "excluded_known_finding_cases": excluded,
        "known_finding_signatures": known_hits.keys().collect::<Vec<_>>(),
        "trusted_base": spec.trusted_base,
        "shards": cfg.shards,
        "replays": replay_paths,
    });
    if let Some(e) = spec.exhaustive {
        coverage["exhaustive"] = json!(e);
    }
    if let Value::Object(m) = spec.extra {
        for (k, v) in m {
            coverage[k] = v;
        }
    }
    let ev = json!({
        "property_id": cfg.id,
        "tier": cfg.tier.name(),
        "seed": cfg.seed,
        "level": "exploration",
        "coverage": coverage,
        "assumptions": spec.assumptions,
        "wall_s": (report.wall_s * 1000.0).round() / 1000.0,
        "violations": real.len(),
    });
    let dir = format!("{}/evidence", cfg.root);
    let _ = std::fs::create_dir_all(&dir);
    let path = format!("{}/{}.json", dir, cfg.id);
    if let Err(e) = std::fs::write(&path, serde_json::to_string_pretty(&ev).unwrap()) {
        eprintln!("INCONCLUSIVE property={} cannot write evidence {}: {}", cfg.id, path, e);
        return 2;
    }
    println!(
        "property={} tier={} seed={} evaluations={} distinct_nontrivial={} rejected={} violations={} wall_s={:.1}",
        cfg.id,
        cfg.tier.name(),
        cfg.seed,
        evals,
        distinct.len(),
        rejected,
        real.len(),
        report.wall_s
    );
    if !real.is_empty() {
        1
    } else if infra {
        2
    } else if evals == 0 || distinct.len() < 2 {
        eprintln!("INCONCLUSIVE property={} generator health: evaluations={} distinct_nontrivial={}", cfg.id, evals, distinct.len());
        2
    } else {
        0
    }
}
