//! Independent reference rules engine (trusted base of the oracles).
//!
//! Written for clarity, shares no code and no tables with the `chess` crate:
//! 8x8 mailbox, attack detection by walking rays square by square, pseudo-legal
//! generation followed by make-and-test king safety.

use std::fmt::Write as _;

#[derive(Clone, Copy, PartialEq, Eq, Hash, Debug, PartialOrd, Ord)]
pub enum Kind {
    P,
    N,
    B,
    R,
    Q,
    K,
}
pub const KINDS: [Kind; 6] = [Kind::P, Kind::N, Kind::B, Kind::R, Kind::Q, Kind::K];
pub const PROMOS: [Kind; 4] = [Kind::Q, Kind::R, Kind::B, Kind::N];

#[derive(Clone, Copy, PartialEq, Eq, Hash, Debug, PartialOrd, Ord)]
pub enum Col {
    W,
    B,
}
impl Col {
    pub fn other(self) -> Col {
        match self {
            Col::W => Col::B,
            Col::B => Col::W,
        }
    }
    pub fn idx(self) -> usize {
        match self {
            Col::W => 0,
            Col::B => 1,
        }
    }
}

/// Square index 0..63, a1 = 0, b1 = 1, ..., h8 = 63.
pub type Sq = u8;
pub fn file_of(s: Sq) -> i8 {
    (s & 7) as i8
}
pub fn rank_of(s: Sq) -> i8 {
    (s >> 3) as i8
}
pub fn mk(file: i8, rank: i8) -> Option<Sq> {
    if (0..8).contains(&file) && (0..8).contains(&rank) {
        Some((rank * 8 + file) as u8)
    } else {
        None
    }
}
pub fn sq_name(s: Sq) -> String {
    let mut t = String::new();
    t.push((b'a' + (s & 7)) as char);
    t.push((b'1' + (s >> 3)) as char);
    t
}
pub fn parse_sq(t: &str) -> Option<Sq> {
    let b = t.as_bytes();
    if b.len() != 2 || !(b'a'..=b'h').contains(&b[0]) || !(b'1'..=b'8').contains(&b[1]) {
        return None;
    }
    Some((b[1] - b'1') * 8 + (b[0] - b'a'))
}

#[derive(Clone, Copy, PartialEq, Eq, Hash, Debug, PartialOrd, Ord)]
pub struct Mv {
    pub from: Sq,
    pub to: Sq,
    pub promo: Option<Kind>,
}
impl Mv {
    pub fn new(from: Sq, to: Sq, promo: Option<Kind>) -> Mv {
        Mv { from, to, promo }
    }
    pub fn uci(&self) -> String {
        let mut s = format!("{}{}", sq_name(self.from), sq_name(self.to));
        if let Some(p) = self.promo {
            s.push(kind_letter_lower(p));
        }
        s
    }
    pub fn parse_uci(t: &str) -> Option<Mv> {
        if !t.is_ascii() || (t.len() != 4 && t.len() != 5) {
            return None;
        }
        let from = parse_sq(&t[0..2])?;
        let to = parse_sq(&t[2..4])?;
        let promo = if t.len() == 5 {
            Some(match &t[4..5] {
                "q" => Kind::Q,
                "r" => Kind::R,
                "b" => Kind::B,
                "n" => Kind::N,
                "k" => Kind::K,
                "p" => Kind::P,
                _ => return None,
            })
        } else {
            None
        };
        Some(Mv { from, to, promo })
    }
}

pub fn kind_letter_lower(k: Kind) -> char {
    match k {
        Kind::P => 'p',
        Kind::N => 'n',
        Kind::B => 'b',
        Kind::R => 'r',
        Kind::Q => 'q',
        Kind::K => 'k',
    }
}
pub fn kind_letter_upper(k: Kind) -> char {
    kind_letter_lower(k).to_ascii_uppercase()
}

pub const WK: usize = 0;
pub const WQ: usize = 1;
pub const BK: usize = 2;
pub const BQ: usize = 3;

#[derive(Clone, PartialEq, Eq, Hash, Debug)]
pub struct Pos {
    pub board: [Option<(Col, Kind)>; 64],
    pub stm: Col,
    /// castling rights: white king side, white queen side, black king side, black queen side
    pub castle: [bool; 4],
    /// FIDE / FEN style en-passant target: the square passed over by the pawn that made a
    /// double push on the previous half-move (set after *every* double push).
    pub ep: Option<Sq>,
}

const KNIGHT_D: [(i8, i8); 8] = [(1, 2), (2, 1), (2, -1), (1, -2), (-1, -2), (-2, -1), (-2, 1), (-1, 2)];
const KING_D: [(i8, i8); 8] = [(1, 0), (1, 1), (0, 1), (-1, 1), (-1, 0), (-1, -1), (0, -1), (1, -1)];
const ROOK_D: [(i8, i8); 4] = [(1, 0), (-1, 0), (0, 1), (0, -1)];
const BISHOP_D: [(i8, i8); 4] = [(1, 1), (1, -1), (-1, 1), (-1, -1)];

pub const E1: Sq = 4;
pub const E8: Sq = 60;
pub const A1: Sq = 0;
pub const H1: Sq = 7;
pub const A8: Sq = 56;
pub const H8: Sq = 63;

#[derive(Clone, Copy, PartialEq, Eq, Debug)]
pub enum Status {
    Ongoing,
    Stalemate,
    Checkmate,
}

impl Pos {
    pub fn empty() -> Pos {
        Pos { board: [None; 64], stm: Col::W, castle: [false; 4], ep: None }
    }
    pub fn startpos() -> Pos {
        Pos::from_fen("rnbqkbnr/pppppppp/8/8/8/8/PPPPPPPP/RNBQKBNR w KQkq - 0 1").unwrap()
    }
    pub fn at(&self, s: Sq) -> Option<(Col, Kind)> {
        self.board[s as usize]
    }
    pub fn king_sq(&self, c: Col) -> Option<Sq> {
        (0..64u8).find(|&s| self.board[s as usize] == Some((c, Kind::K)))
    }
    pub fn count(&self, c: Col, k: Kind) -> usize {
        self.board.iter().filter(|x| **x == Some((c, k))).count()
    }
    pub fn men(&self, c: Col) -> usize {
        self.board.iter().filter(|x| matches!(x, Some((cc, _)) if *cc == c)).count()
    }
    pub fn total_men(&self) -> usize {
        self.board.iter().filter(|x| x.is_some()).count()
    }

    /// Squares holding pieces of colour `by` that attack square `t`.
    pub fn attackers(&self, t: Sq, by: Col) -> Vec<Sq> {
        let mut out = vec![];
        let (f, r) = (file_of(t), rank_of(t));
        // pawns: a pawn of colour `by` on (f±1, r∓dir) attacks t
        let dir: i8 = if by == Col::W { 1 } else { -1 };
        for df in [-1i8, 1] {
            if let Some(s) = mk(f + df, r - dir) {
                if self.at(s) == Some((by, Kind::P)) {
                    out.push(s);
                }
            }
        }
        for (df, dr) in KNIGHT_D {
            if let Some(s) = mk(f + df, r + dr) {
                if self.at(s) == Some((by, Kind::N)) {
                    out.push(s);
                }
            }
        }
        for (df, dr) in KING_D {
            if let Some(s) = mk(f + df, r + dr) {
                if self.at(s) == Some((by, Kind::K)) {
                    out.push(s);
                }
            }
        }
        for (dirs, k1) in [(ROOK_D, Kind::R), (BISHOP_D, Kind::B)] {
            for (df, dr) in dirs {
                let (mut cf, mut cr) = (f + df, r + dr);
                while let Some(s) = mk(cf, cr) {
                    if let Some((c, k)) = self.at(s) {
                        if c == by && (k == k1 || k == Kind::Q) {
                            out.push(s);
                        }
                        break;
                    }
                    cf += df;
                    cr += dr;
                }
            }
        }
        out.sort();
        out
    }
    pub fn attacked(&self, t: Sq, by: Col) -> bool {
        !self.attackers(t, by).is_empty()
    }
    pub fn in_check(&self, c: Col) -> bool {
        match self.king_sq(c) {
            Some(k) => self.attacked(k, c.other()),
            None => false,
        }
    }
    /// Enemy pieces giving check to the side to move.
    pub fn checkers(&self) -> Vec<Sq> {
        match self.king_sq(self.stm) {
            Some(k) => self.attackers(k, self.stm.other()),
            None => vec![],
        }
    }

    /// Pieces of colour `c` absolutely pinned to `c`'s king: own piece alone on the segment
    /// between own king and an enemy slider moving along that line.
    pub fn pinned_of(&self, c: Col) -> Vec<Sq> {
        let mut out = vec![];
        let k = match self.king_sq(c) {
            Some(k) => k,
            None => return out,
        };
        let (f, r) = (file_of(k), rank_of(k));
        for (dirs, k1) in [(ROOK_D, Kind::R), (BISHOP_D, Kind::B)] {
            for (df, dr) in dirs {
                let (mut cf, mut cr) = (f + df, r + dr);
                let mut candidate: Option<Sq> = None;
                while let Some(s) = mk(cf, cr) {
                    if let Some((pc, pk)) = self.at(s) {
                        match candidate {
                            None => {
                                if pc == c {
                                    candidate = Some(s);
                                } else {
                                    break;
                                }
                            }
                            Some(cs) => {
                                if pc != c && (pk == k1 || pk == Kind::Q) {
                                    out.push(cs);
                                }
                                break;
                            }
                        }
                    }
                    cf += df;
                    cr += dr;
                }
            }
        }
        out.sort();
        out
    }
    /// The library's `pinned()` bitboard as it is actually specified by its construction: the
    /// single piece (of either colour) standing alone between the mover's king and an enemy
    /// slider.  Only the part that belongs to the mover is asserted by C03.
    pub fn pinned(&self) -> Vec<Sq> {
        self.pinned_of(self.stm)
    }

    fn castle_idx(c: Col, kingside: bool) -> usize {
        match (c, kingside) {
            (Col::W, true) => WK,
            (Col::W, false) => WQ,
            (Col::B, true) => BK,
            (Col::B, false) => BQ,
        }
    }

    /// Pseudo-legal moves: piece movement rules obeyed, own king's safety ignored.  Castling is
    /// included when the right exists, king and rook are at home and the squares between them are
    /// empty (attack conditions are part of legality, tested in `is_legal`).
    pub fn pseudo_moves(&self) -> Vec<Mv> {
        let mut out = vec![];
        let c = self.stm;
        for s in 0..64u8 {
            let (pc, pk) = match self.at(s) {
                Some(x) => x,
                None => continue,
            };
            if pc != c {
                continue;
            }
            let (f, r) = (file_of(s), rank_of(s));
            match pk {
                Kind::P => {
                    let dir: i8 = if c == Col::W { 1 } else { -1 };
                    let start_rank: i8 = if c == Col::W { 1 } else { 6 };
                    let last_rank: i8 = if c == Col::W { 7 } else { 0 };
                    let push = |to: Sq, out: &mut Vec<Mv>| {
                        if rank_of(to) == last_rank {
                            for p in PROMOS {
                                out.push(Mv::new(s, to, Some(p)));
                            }
                        } else {
                            out.push(Mv::new(s, to, None));
                        }
                    };
                    if let Some(t1) = mk(f, r + dir) {
                        if self.at(t1).is_none() {
                            push(t1, &mut out);
                            if r == start_rank {
                                if let Some(t2) = mk(f, r + 2 * dir) {
                                    if self.at(t2).is_none() {
                                        push(t2, &mut out);
                                    }
                                }
                            }
                        }
                    }
                    for df in [-1i8, 1] {
                        if let Some(t) = mk(f + df, r + dir) {
                            match self.at(t) {
                                Some((oc, _)) if oc != c => push(t, &mut out),
                                None if self.ep == Some(t) && self.ep_victim_ok(t) => {
                                    out.push(Mv::new(s, t, None))
                                }
                                _ => {}
                            }
                        }
                    }
                }
                Kind::N => {
                    for (df, dr) in KNIGHT_D {
                        if let Some(t) = mk(f + df, r + dr) {
                            if !matches!(self.at(t), Some((oc, _)) if oc == c) {
                                out.push(Mv::new(s, t, None));
                            }
                        }
                    }
                }
                Kind::K => {
                    for (df, dr) in KING_D {
                        if let Some(t) = mk(f + df, r + dr) {
                            if !matches!(self.at(t), Some((oc, _)) if oc == c) {
                                out.push(Mv::new(s, t, None));
                            }
                        }
                    }
                    let home = if c == Col::W { E1 } else { E8 };
                    if s == home {
                        let base = home - 4;
                        if self.castle[Pos::castle_idx(c, true)]
                            && self.at(base + 7) == Some((c, Kind::R))
                            && self.at(base + 5).is_none()
                            && self.at(base + 6).is_none()
                        {
                            out.push(Mv::new(s, base + 6, None));
                        }
                        if self.castle[Pos::castle_idx(c, false)]
                            && self.at(base) == Some((c, Kind::R))
                            && self.at(base + 1).is_none()
                            && self.at(base + 2).is_none()
                            && self.at(base + 3).is_none()
                        {
                            out.push(Mv::new(s, base + 2, None));
                        }
                    }
                }
                Kind::B | Kind::R | Kind::Q => {
                    let mut dirs: Vec<(i8, i8)> = vec![];
                    if pk != Kind::B {
                        dirs.extend_from_slice(&ROOK_D);
                    }
                    if pk != Kind::R {
                        dirs.extend_from_slice(&BISHOP_D);
                    }
                    for (df, dr) in dirs {
                        let (mut cf, mut cr) = (f + df, r + dr);
                        while let Some(t) = mk(cf, cr) {
                            match self.at(t) {
                                None => out.push(Mv::new(s, t, None)),
                                Some((oc, _)) => {
                                    if oc != c {
                                        out.push(Mv::new(s, t, None));
                                    }
                                    break;
                                }
                            }
                            cf += df;
                            cr += dr;
                        }
                    }
                }
            }
        }
        out
    }

    /// The en-passant target `t` is backed by an enemy pawn directly "behind" it (from the
    /// capturer's point of view: on the capturer's rank).
    fn ep_victim_ok(&self, t: Sq) -> bool {
        let c = self.stm;
        let dir: i8 = if c == Col::W { 1 } else { -1 };
        match mk(file_of(t), rank_of(t) - dir) {
            Some(v) => self.at(v) == Some((c.other(), Kind::P)),
            None => false,
        }
    }

    pub fn is_castle(&self, m: Mv) -> bool {
        matches!(self.at(m.from), Some((_, Kind::K))) && (file_of(m.from) - file_of(m.to)).abs() == 2
    }
    pub fn is_ep_capture(&self, m: Mv) -> bool {
        matches!(self.at(m.from), Some((_, Kind::P)))
            && file_of(m.from) != file_of(m.to)
            && self.at(m.to).is_none()
    }
    pub fn is_capture(&self, m: Mv) -> bool {
        self.at(m.to).is_some() || self.is_ep_capture(m)
    }
    pub fn is_double_push(&self, m: Mv) -> bool {
        matches!(self.at(m.from), Some((_, Kind::P))) && (rank_of(m.from) - rank_of(m.to)).abs() == 2
    }

    /// Apply a pseudo-legal move.
    pub fn apply(&self, m: Mv) -> Pos {
        let mut n = self.clone();
        let (c, k) = self.at(m.from).expect("apply: empty source");
        n.ep = None;
        // en passant capture removes the pawn beside the source
        if self.is_ep_capture(m) {
            let v = mk(file_of(m.to), rank_of(m.from)).unwrap();
            n.board[v as usize] = None;
        }
        n.board[m.from as usize] = None;
        n.board[m.to as usize] = Some((c, m.promo.unwrap_or(k)));
        if self.is_castle(m) {
            let base = m.from - 4;
            if file_of(m.to) == 6 {
                n.board[(base + 7) as usize] = None;
                n.board[(base + 5) as usize] = Some((c, Kind::R));
            } else {
                n.board[base as usize] = None;
                n.board[(base + 3) as usize] = Some((c, Kind::R));
            }
        }
        if self.is_double_push(m) {
            n.ep = Some((m.from + m.to) / 2);
        }
        // castling rights: lost when king or rook leaves home, or a rook is captured at home
        for s in [m.from, m.to] {
            match s {
                E1 => {
                    n.castle[WK] = false;
                    n.castle[WQ] = false;
                }
                E8 => {
                    n.castle[BK] = false;
                    n.castle[BQ] = false;
                }
                H1 => n.castle[WK] = false,
                A1 => n.castle[WQ] = false,
                H8 => n.castle[BK] = false,
                A8 => n.castle[BQ] = false,
                _ => {}
            }
        }
        n.stm = c.other();
        n
    }

    /// Legality of a pseudo-legal move.
    pub fn is_legal(&self, m: Mv) -> bool {
        let c = self.stm;
        if self.is_castle(m) {
            if self.in_check(c) {
                return false;
            }
            let step: i8 = if file_of(m.to) == 6 { 1 } else { -1 };
            let mid = (m.from as i8 + step) as u8;
            if self.attacked(mid, c.other()) || self.attacked(m.to, c.other()) {
                return false;
            }
            return true;
        }
        let n = self.apply(m);
        !n.in_check(c)
    }

    pub fn legal_moves(&self) -> Vec<Mv> {
        let mut v: Vec<Mv> = self.pseudo_moves().into_iter().filter(|m| self.is_legal(*m)).collect();
        v.sort();
        v
    }
    /// Pseudo-legal but illegal moves (near misses for the legality query).
    pub fn illegal_pseudo_moves(&self) -> Vec<Mv> {
        self.pseudo_moves().into_iter().filter(|m| !self.is_legal(*m)).collect()
    }

    pub fn status(&self) -> Status {
        if !self.legal_moves().is_empty() {
            Status::Ongoing
        } else if self.in_check(self.stm) {
            Status::Checkmate
        } else {
            Status::Stalemate
        }
    }

    /// Is there a legal en-passant capture in this position?
    pub fn legal_ep_exists(&self) -> bool {
        self.ep.is_some() && self.legal_moves().iter().any(|m| self.is_ep_capture(*m))
    }
    /// Is there an enemy... rather: a pawn of the side to move standing beside the pawn that just
    /// made a double push (the library records en-passant state exactly then).
    pub fn ep_adjacent_pawn(&self) -> bool {
        let t = match self.ep {
            Some(t) => t,
            None => return false,
        };
        let c = self.stm;
        let dir: i8 = if c == Col::W { 1 } else { -1 };
        let pr = rank_of(t) - dir; // rank of the pushed pawn == rank of capturers
        for df in [-1i8, 1] {
            if let Some(s) = mk(file_of(t) + df, pr) {
                if self.at(s) == Some((c, Kind::P)) {
                    return true;
                }
            }
        }
        false
    }
    /// Square of the pawn that just made the double push (library convention for en_passant()).
    pub fn ep_pawn_sq(&self) -> Option<Sq> {
        let t = self.ep?;
        let dir: i8 = if self.stm == Col::W { 1 } else { -1 };
        mk(file_of(t), rank_of(t) - dir)
    }

    /// Validity in the sense of property C01's quantifier.
    /// En-passant state can only stand "directly after a double pawn push": with the pushed pawn
    /// put back on its starting square and the turn given back, the side that is to move now must
    /// not be in check (it was the other side's turn then). `validate` checks the squares only;
    /// this is the part about the position before.
    pub fn ep_predecessor_ok(&self) -> bool {
        match self.ep {
            None => true,
            Some(t) => {
                let mover = self.stm.other();
                let (pawn_sq, origin) = if self.stm == Col::W { (t - 8, t + 8) } else { (t + 8, t - 8) };
                let mut q = self.clone();
                q.board[pawn_sq as usize] = None;
                q.board[origin as usize] = Some((mover, Kind::P));
                q.ep = None;
                q.stm = mover;
                !q.in_check(self.stm)
            }
        }
    }
    pub fn validate(&self) -> Result<(), String> {
        for c in [Col::W, Col::B] {
            if self.count(c, Kind::K) != 1 {
                return Err(format!("{:?} has {} kings", c, self.count(c, Kind::K)));
            }
            if self.men(c) > 16 {
                return Err(format!("{:?} has {} men", c, self.men(c)));
            }
            if self.count(c, Kind::P) > 8 {
                return Err(format!("{:?} has {} pawns", c, self.count(c, Kind::P)));
            }
        }
        for s in (0..8u8).chain(56..64u8) {
            if matches!(self.at(s), Some((_, Kind::P))) {
                return Err(format!("pawn on back rank {}", sq_name(s)));
            }
        }
        if self.in_check(self.stm.other()) {
            return Err("side not to move is in check".into());
        }
        let wk = self.king_sq(Col::W).unwrap();
        let bk = self.king_sq(Col::B).unwrap();
        if (file_of(wk) - file_of(bk)).abs() <= 1 && (rank_of(wk) - rank_of(bk)).abs() <= 1 {
            return Err("kings adjacent".into());
        }
        let need = [(WK, E1, H1, Col::W), (WQ, E1, A1, Col::W), (BK, E8, H8, Col::B), (BQ, E8, A8, Col::B)];
        for (i, ks, rs, c) in need {
            if self.castle[i] && (self.at(ks) != Some((c, Kind::K)) || self.at(rs) != Some((c, Kind::R))) {
                return Err(format!("castling right {} without king/rook at home", i));
            }
        }
        if let Some(t) = self.ep {
            // only directly after a double push: target on rank 3/6 (index 2/5) matching the
            // side to move, pushed pawn in front of it, both squares behind it empty
            let want_rank = if self.stm == Col::W { 5 } else { 2 };
            if rank_of(t) != want_rank {
                return Err("ep target on wrong rank".into());
            }
            if !self.ep_victim_ok(t) {
                return Err("ep target without pushed pawn".into());
            }
            if self.at(t).is_some() {
                return Err("ep target occupied".into());
            }
            let dir: i8 = if self.stm == Col::W { 1 } else { -1 };
            let origin = mk(file_of(t), rank_of(t) + dir).unwrap();
            if self.at(origin).is_some() {
                return Err("ep origin square occupied".into());
            }
        }
        Ok(())
    }

    // ---------------------------------------------------------------- FEN

    pub fn placement_fen(&self) -> String {
        let mut s = String::new();
        for r in (0..8).rev() {
            let mut run = 0;
            for f in 0..8 {
                match self.at(mk(f, r).unwrap()) {
                    None => run += 1,
                    Some((c, k)) => {
                        if run > 0 {
                            write!(s, "{}", run).unwrap();
                            run = 0;
                        }
                        s.push(if c == Col::W { kind_letter_upper(k) } else { kind_letter_lower(k) });
                    }
                }
            }
            if run > 0 {
                write!(s, "{}", run).unwrap();
            }
            if r > 0 {
                s.push('/');
            }
        }
        s
    }
    pub fn castle_fen(&self) -> String {
        let mut s = String::new();
        for (i, ch) in [(WK, 'K'), (WQ, 'Q'), (BK, 'k'), (BQ, 'q')] {
            if self.castle[i] {
                s.push(ch);
            }
        }
        if s.is_empty() {
            s.push('-');
        }
        s
    }
    /// Standard FEN; the en-passant square is recorded after every double push.
    /// Clock values a standard writer may emit for this position, chosen by `h`: half-move clocks up
    /// to 300 (nobody has to claim the draw), full-move numbers mostly below 300, sometimes around
    /// 256 and up to 9999 (long games).
    pub fn clocks_for(h: u64) -> (u32, u32) {
        let half = match h % 8 {
            0 => 0,
            1 => 99 + (h >> 3) as u32 % 3,
            2 => 100 + (h >> 3) as u32 % 200,
            _ => (h >> 3) as u32 % 100,
        };
        let x = (h >> 20) as u32;
        let full = match (h >> 12) % 8 {
            0 | 1 | 2 | 3 => 1 + x % 300,
            4 => 1,
            5 => 250 + x % 20,
            6 => 1 + x % 9999,
            _ => [127, 128, 255, 256, 257, 999, 1000, 9999][(x % 8) as usize],
        };
        (half, full)
    }
    pub fn fen_with_clocks(&self, half: u32, full: u32) -> String {
        format!(
            "{} {} {} {} {} {}",
            self.placement_fen(),
            if self.stm == Col::W { "w" } else { "b" },
            self.castle_fen(),
            match self.ep {
                Some(t) => sq_name(t),
                None => "-".into(),
            },
            half,
            full
        )
    }
    pub fn fen(&self) -> String {
        self.fen_with_clocks(0, 1)
    }
    /// FEN with the en-passant field dropped ("-").
    pub fn fen_no_ep(&self) -> String {
        let mut p = self.clone();
        p.ep = None;
        p.fen()
    }

    /// Strict reader of standard six-field (or four-field) FEN.
    pub fn from_fen(text: &str) -> Result<Pos, String> {
        let fields: Vec<&str> = text.split(' ').collect();
        if fields.len() != 6 && fields.len() != 4 {
            return Err(format!("{} fields", fields.len()));
        }
        let mut p = Pos::empty();
        let ranks: Vec<&str> = fields[0].split('/').collect();
        if ranks.len() != 8 {
            return Err("placement must have 8 ranks".into());
        }
        for (i, rt) in ranks.iter().enumerate() {
            let r = 7 - i as i8;
            let mut f: i8 = 0;
            let mut last_digit = false;
            for ch in rt.chars() {
                if let Some(d) = ch.to_digit(10) {
                    if !(1..=8).contains(&d) || last_digit {
                        return Err("bad digit run".into());
                    }
                    f += d as i8;
                    last_digit = true;
                } else {
                    last_digit = false;
                    let c = if ch.is_ascii_uppercase() { Col::W } else { Col::B };
                    let k = match ch.to_ascii_lowercase() {
                        'p' => Kind::P,
                        'n' => Kind::N,
                        'b' => Kind::B,
                        'r' => Kind::R,
                        'q' => Kind::Q,
                        'k' => Kind::K,
                        _ => return Err(format!("bad piece letter {:?}", ch)),
                    };
                    if f > 7 {
                        return Err("rank too long".into());
                    }
                    p.board[mk(f, r).unwrap() as usize] = Some((c, k));
                    f += 1;
                }
            }
            if f != 8 {
                return Err(format!("rank {} describes {} files", r + 1, f));
            }
        }
        p.stm = match fields[1] {
            "w" => Col::W,
            "b" => Col::B,
            _ => return Err("bad side".into()),
        };
        if fields[2] != "-" {
            if fields[2].is_empty() {
                return Err("empty castling".into());
            }
            let mut last = -1i32;
            for ch in fields[2].chars() {
                let i = match ch {
                    'K' => WK,
                    'Q' => WQ,
                    'k' => BK,
                    'q' => BQ,
                    _ => return Err("bad castling letter".into()),
                };
                if (i as i32) <= last {
                    return Err("castling letters out of order".into());
                }
                last = i as i32;
                p.castle[i] = true;
            }
        }
        if fields[3] != "-" {
            let t = parse_sq(fields[3]).ok_or("bad ep square")?;
            let want = if p.stm == Col::W { 5 } else { 2 };
            if rank_of(t) != want {
                return Err("ep square on wrong rank for side to move".into());
            }
            p.ep = Some(t);
        }
        if fields.len() == 6 {
            let h: u32 = fields[4].parse().map_err(|_| "bad halfmove clock")?;
            let f: u32 = fields[5].parse().map_err(|_| "bad fullmove number")?;
            let _ = h;
            if f < 1 && false {
                return Err("fullmove number < 1".into());
            }
        }
        Ok(p)
    }

    // ---------------------------------------------------------------- symmetry

    /// Colour swap + vertical flip.
    pub fn mirror_v(&self) -> Pos {
        let mut n = Pos::empty();
        for s in 0..64u8 {
            if let Some((c, k)) = self.at(s) {
                n.board[(s ^ 56) as usize] = Some((c.other(), k));
            }
        }
        n.stm = self.stm.other();
        n.castle = [self.castle[BK], self.castle[BQ], self.castle[WK], self.castle[WQ]];
        n.ep = self.ep.map(|t| t ^ 56);
        n
    }
    /// Left-right flip (only meaningful without castling rights).
    pub fn mirror_h(&self) -> Pos {
        let mut n = Pos::empty();
        for s in 0..64u8 {
            if let Some(x) = self.at(s) {
                n.board[(s ^ 7) as usize] = Some(x);
            }
        }
        n.stm = self.stm;
        n.castle = [false; 4];
        n.ep = self.ep.map(|t| t ^ 7);
        n
    }

    // ---------------------------------------------------------------- SAN

    /// Suffix for check / mate after move `m`.
    pub fn check_suffix(&self, m: Mv) -> &'static str {
        let n = self.apply(m);
        if n.in_check(n.stm) {
            if n.legal_moves().is_empty() {
                "#"
            } else {
                "+"
            }
        } else {
            ""
        }
    }

    /// All admissible SAN spellings of legal move `m` (see DESIGN C12), without the optional
    /// check suffix / " e.p." variants, which the caller combines.  Returns (core spellings,
    /// is_ep).  The first entry is the canonical (minimal) spelling.
    pub fn san_cores(&self, m: Mv, legal: &[Mv]) -> Vec<String> {
        let (_, k) = self.at(m.from).unwrap();
        if self.is_castle(m) {
            return vec![if file_of(m.to) == 6 { "O-O".into() } else { "O-O-O".into() }];
        }
        let cap = self.is_capture(m);
        let dest = sq_name(m.to);
        if k == Kind::P {
            let mut s = String::new();
            if cap {
                s.push((b'a' + (m.from & 7)) as char);
                s.push('x');
            }
            s.push_str(&dest);
            if let Some(p) = m.promo {
                s.push(kind_letter_upper(p));
            }
            // the fuller disambiguation: full source square (the library documents the source
            // specifier as "" | file | rank | file+rank for every kind of piece)
            let mut full = sq_name(m.from);
            if cap {
                full.push('x');
            }
            full.push_str(&dest);
            if let Some(p) = m.promo {
                full.push(kind_letter_upper(p));
            }
            return vec![s, full];
        }
        // other legal moves of the same kind of piece to the same destination
        let rivals: Vec<Mv> = legal
            .iter()
            .copied()
            .filter(|o| o.to == m.to && o.from != m.from && matches!(self.at(o.from), Some((_, kk)) if kk == k))
            .collect();
        let fch = (b'a' + (m.from & 7)) as char;
        let rch = (b'1' + (m.from >> 3)) as char;
        let uniq_none = rivals.is_empty();
        let uniq_file = !rivals.iter().any(|o| file_of(o.from) == file_of(m.from));
        let uniq_rank = !rivals.iter().any(|o| rank_of(o.from) == rank_of(m.from));
        let mut dis: Vec<String> = vec![];
        // canonical first: none, else file, else rank, else both
        if uniq_none {
            dis.push(String::new());
        }
        if uniq_file {
            dis.push(fch.to_string());
        }
        if uniq_rank {
            dis.push(rch.to_string());
        }
        dis.push(format!("{}{}", fch, rch));
        let mut out = vec![];
        for d in dis {
            let mut s = String::new();
            s.push(kind_letter_upper(k));
            s.push_str(&d);
            if cap {
                s.push('x');
            }
            s.push_str(&dest);
            out.push(s);
        }
        out
    }
    pub fn san(&self, m: Mv) -> String {
        let legal = self.legal_moves();
        let mut s = self.san_cores(m, &legal)[0].clone();
        s.push_str(self.check_suffix(m));
        s
    }
}

/// Perft on the reference model.
pub fn perft(p: &Pos, depth: u32) -> u64 {
    if depth == 0 {
        return 1;
    }
    let ms = p.legal_moves();
    if depth == 1 {
        return ms.len() as u64;
    }
    ms.iter().map(|m| perft(&p.apply(*m), depth - 1)).sum()
}

/// Self-test of the reference model against perft counts published in the literature
/// (chessprogramming wiki "Perft Results").  Returns Err on disagreement.
pub fn self_test(deep: bool) -> Result<u64, String> {
    let table: [(&str, &[u64], u64); 6] = [
        ("rnbqkbnr/pppppppp/8/8/8/8/PPPPPPPP/RNBQKBNR w KQkq - 0 1", &[20, 400, 8902], 197281),
        ("r3k2r/p1ppqpb1/bn2pnp1/3PN3/1p2P3/2N2Q1p/PPPBBPPP/R3K2R w KQkq - 0 1", &[48, 2039], 97862),
        ("8/2p5/3p4/KP5r/1R3p1k/8/4P1P1/8 w - - 0 1", &[14, 191, 2812], 43238),
        ("r3k2r/Pppp1ppp/1b3nbN/nP6/BBP1P3/q4N2/Pp1P2PP/R2Q1RK1 w kq - 0 1", &[6, 264], 9467),
        ("rnbq1k1r/pp1Pbppp/2p5/8/2B5/8/PPP1NnPP/RNBQK2R w KQ - 1 8", &[44, 1486], 62379),
        ("r4rk1/1pp1qppp/p1np1n2/2b1p1B1/2B1P1b1/P1NP1N2/1PP1QPPP/R4RK1 w - - 0 10", &[46, 2079], 89890),
    ];
    let mut nodes = 0;
    for (fen, counts, deeper) in table {
        let p = Pos::from_fen(fen)?;
        p.validate()?;
        for (i, want) in counts.iter().enumerate() {
            let got = perft(&p, i as u32 + 1);
            nodes += got;
            if got != *want {
                return Err(format!("reference perft({}) of {} = {} != published {}", i + 1, fen, got, want));
            }
        }
        if deep {
            let d = counts.len() as u32 + 1;
            let got = perft(&p, d);
            nodes += got;
            if got != deeper {
                return Err(format!("reference perft({}) of {} = {} != published {}", d, fen, got, deeper));
            }
        }
    }
    Ok(nodes)
}
