//! C18 — null move: refused exactly in check; otherwise only passes the turn, clears the
//! en-passant state, and check/pin/hash information equals the from-scratch construction.

use super::common;
use crate::bridge::{self, observe};
use crate::engine::{self, fp, Cfg, Ctx, EvidenceSpec, Violation};
use crate::gen::Step;
use crate::refmodel::*;
use chess::Board;
use serde_json::{json, Value};
use std::str::FromStr;

fn check_null(ctx: &mut Ctx, p: &Pos, b: &Board, case: &dyn Fn() -> Value) -> Result<Option<(Pos, Board)>, Violation> {
    let before = *b;
    let in_check = p.in_check(p.stm);
    let r = b.null_move();
    if *b != before {
        ctx.fail("null:source-modified", "null_move changed its source board".into(), case())?;
    }
    match (in_check, r) {
        (true, None) => {
            ctx.class("null:refused-in-check");
            Ok(None)
        }
        (true, Some(_)) => {
            ctx.fail("null:accepted-in-check", "null_move() returned a board although the side to move is in check".into(), case())?;
            Ok(None)
        }
        (false, None) => {
            ctx.fail("null:refused-without-check", "null_move() returned None although the side to move is not in check".into(), case())?;
            Ok(None)
        }
        (false, Some(nb)) => {
            let mut np = p.clone();
            np.stm = p.stm.other();
            np.ep = None;
            let o = observe(&nb);
            if let Some(d) = bridge::obs_vs_pos(&o, &np) {
                ctx.fail("null:result-position", format!("after null move: {}", d), case())?;
            }
            if o.ep.is_some() {
                ctx.fail("null:ep-kept", format!("after null move en_passant() = {:?}", o.ep.map(sq_name)), case())?;
            }
            match Board::from_str(&np.fen()) {
                Ok(f) => {
                    if nb != f {
                        let d = bridge::obs_diff(&o, &observe(&f)).unwrap_or_else(|| "differ under == only".into());
                        ctx.fail("null:differs-from-scratch", format!("null-move result vs Board::from_str({:?}): {}", np.fen(), d), case())?;
                    } else if let Some(d) = bridge::obs_diff(&o, &observe(&f)) {
                        ctx.fail("null:differs-from-scratch", format!("null-move result == from-scratch board but observables differ: {}", d), case())?;
                    }
                }
                Err(_) => {
                    // the passed position leaves the new non-mover (old mover) not in check by
                    // construction, so the library must accept it
                    ctx.fail("null:scratch-rejected", format!("Board::from_str({:?}) rejected", np.fen()), case())?;
                }
            }
            // check / pin information against the rules directly
            let want_chk = bridge::bb_of(&np.checkers());
            let own = if np.stm == Col::W { o.white } else { o.black };
            let want_pin = bridge::bb_of(&np.pinned());
            if o.checkers != want_chk || o.pinned & own != want_pin {
                ctx.fail("null:check-pin-info", format!("after null move checkers {:?} pinned {:?}, rules say {:?} / {:?}", bridge::bb_squares(o.checkers), bridge::bb_squares(o.pinned & own), bridge::bb_squares(want_chk), bridge::bb_squares(want_pin)), case())?;
            }
            Ok(Some((np, nb)))
        }
    }
}

pub fn check_step(ctx: &mut Ctx, s: &Step) -> Result<(), Violation> {
    let p = s.pos;
    ctx.eval();
    let case = || s.case();
    if p.ep.is_some() {
        ctx.class(if p.ep_adjacent_pawn() { "pos:ep-state-recorded" } else { "pos:ep-target-only" });
    }
    // boards obtained through the deprecated editing API are boards too (one position in four)
    if fp(&(p, "c18-ways")) % 4 == 0 {
        for (vp, vb, how) in super::editapi::other_ways(p, s.board, 2) {
            if how.starts_with("null_move") {
                continue;
            }
            ctx.evals_add(1);
            ctx.class("null:on-board-from-editing-api");
            let c2 = || s.case_with(json!({"obtained_through": how, "position_checked": vp.fen()}));
            check_null(ctx, &vp, &vb, &c2)?;
        }
    }
    let r = check_null(ctx, p, s.board, &case)?;
    let mut nontrivial = p.in_check(p.stm) || (p.ep.is_some() && p.ep_adjacent_pawn());
    if let Some((np, nb)) = r {
        if !np.pinned().is_empty() {
            ctx.class("null:passed-position-has-pins");
            nontrivial = true;
        }
        if !np.checkers().is_empty() {
            // cannot happen for valid positions (the old non-mover is never in check)
            ctx.class("null:passed-position-in-check");
        }
        // interleave: a real move after the null move, then null again
        let legal = np.legal_moves();
        if !legal.is_empty() {
            let h = fp(&np);
            for j in 0..2u64 {
                let m = legal[((h >> (8 * j)) % legal.len() as u64) as usize];
                let nn = np.apply(m);
                let nnb = bridge::advance(&nb, bridge::mv(m), (h >> 20) + j, s.board);
                let c2 = || s.case_with(json!({"then": format!("null move, {}, null move", m.uci())}));
                ctx.count("interleaved_null_after_move", 1);
                check_null(ctx, &nn, &nnb, &c2)?;
            }
        }
    }
    if nontrivial {
        ctx.nontrivial(fp(p));
    }
    ctx.sample(|| s.case());
    Ok(())
}

pub fn run(cfg: &Cfg) -> i32 {
    let report = engine::run_shards(cfg, |shard, ctx, seedf| {
        common::golden(cfg, shard, ctx, &check_step)?;
        common::histories(ctx, seedf(1), cfg.per_shard(400_000, 6_000_000), 4, 40, None, &check_step)?;
        Ok(())
    });
    engine::finish(
        report,
        EvidenceSpec {
            rule: "cases = positions on golden and generated histories; at each one null_move() is compared with the rules (refused iff in check) and with Board::from_str of the passed position; then two real moves are made from the passed position and the null move is tried again (interleaving). evaluations = positions. Non-trivial = mover in check, en-passant state recorded, or the passed position has pinned pieces; distinct = position fingerprints.".into(),
            assumptions: vec!["reference in_check / pinned / FEN writer".into()],
            trusted_base: vec!["harness/src/refmodel.rs".into(), "proptest 1.11".into()],
            exhaustive: None,
            extra: json!({}),
        },
    )
}

pub fn replay(ctx: &mut Ctx, case: &Value) -> Result<(), Violation> {
    common::replay_hist(ctx, case, &check_step)
}
