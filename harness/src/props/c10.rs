//! C10 — Game protocol: moves accepted iff legal and game open; results final and correct;
//! log / position / side to move equal the start advanced by exactly the accepted actions.

use crate::bridge::{self, observe};
use crate::engine::{self, fp, Cfg, Ctx, EvidenceSpec, Violation};
use crate::gamemodel::{gen_program, Act, GameModel, Op, Res};
use crate::gen::{self, Policy, RawHist, Tape};
use crate::refmodel::*;
use chess::{Action, Board, Color, Game, GameResult};
use serde_json::{json, Value};
use std::str::FromStr;

pub fn lib_res(r: Option<GameResult>) -> Option<Res> {
    r.map(|r| match r {
        GameResult::WhiteCheckmates => Res::WhiteCheckmates,
        GameResult::WhiteResigns => Res::WhiteResigns,
        GameResult::BlackCheckmates => Res::BlackCheckmates,
        GameResult::BlackResigns => Res::BlackResigns,
        GameResult::Stalemate => Res::Stalemate,
        GameResult::DrawAccepted => Res::DrawAccepted,
        GameResult::DrawDeclared => Res::DrawDeclared,
    })
}
pub fn lib_act(a: &Action) -> Act {
    match a {
        Action::MakeMove(m) => Act::Move(bridge::rmv(*m)),
        Action::OfferDraw(c) => Act::Offer(bridge::rcol(*c)),
        Action::AcceptDraw => Act::Accept,
        Action::DeclareDraw => Act::Declare,
        Action::Resign(c) => Act::Resign(bridge::rcol(*c)),
    }
}

pub fn case_json(start: &Pos, ops: &[Op]) -> Value {
    json!({"start": start.fen(), "ops": ops.iter().map(|o| o.to_json()).collect::<Vec<_>>()})
}
pub fn parse_case(v: &Value) -> Option<(Pos, Vec<Op>)> {
    let start = Pos::from_fen(v.get("start")?.as_str()?).ok()?;
    let mut ops = vec![];
    for o in v.get("ops")?.as_array()? {
        ops.push(Op::from_json(o)?);
    }
    Some((start, ops))
}

/// Compare every observable of the game with the model.
pub fn compare(ctx: &mut Ctx, g: &Game, m: &GameModel, replayed: &Board, after: &str, case: &dyn Fn() -> Value) -> Result<(), Violation> {
    let log: Vec<Act> = g.actions().iter().map(lib_act).collect();
    if log != m.log {
        ctx.fail("game:action-log", format!("after {}: actions() = {:?}, expected {:?}", after, log, m.log), case())?;
    }
    let cur = g.current_position();
    if let Some(d) = bridge::obs_vs_pos(&observe(&cur), &m.pos) {
        ctx.fail("game:current-position", format!("after {}: current_position(): {}", after, d), case())?;
    }
    if cur != *replayed {
        ctx.fail("game:current-position", format!("after {}: current_position() != start advanced by the accepted moves", after), case())?;
    }
    if bridge::rcol(g.side_to_move()) != m.pos.stm {
        ctx.fail("game:side-to-move", format!("after {}: side_to_move() = {:?}, expected {:?}", after, g.side_to_move(), m.pos.stm), case())?;
    }
    let r = lib_res(g.result());
    if r != m.result() {
        ctx.fail("game:result", format!("after {}: result() = {:?}, expected {:?}", after, r, m.result()), case())?;
    }
    Ok(())
}

pub fn check_program(ctx: &mut Ctx, start: &Pos, ops: &[Op]) -> Result<(), Violation> {
    ctx.eval();
    let case = || case_json(start, ops);
    ctx.set_case(case());
    let b0 = match Board::from_str(&start.fen()) {
        Ok(b) => b,
        Err(_) => {
            ctx.reject();
            return Ok(());
        }
    };
    // every way of creating a game (chosen by the start position's fingerprint)
    #[allow(deprecated)]
    let mut g = match fp(start) % 4 {
        0 => Game::new_with_board(b0),
        1 => match Game::from_str(&start.fen()) {
            Ok(g) => g,
            Err(_) => {
                ctx.reject(); // acceptance of valid positions is C07's statement
                return Ok(());
            }
        },
        2 => match Game::new_from_fen(&start.fen()) {
            Some(g) => g,
            None => {
                ctx.reject();
                return Ok(());
            }
        },
        _ => {
            if *start == Pos::startpos() {
                ctx.class("construction:Game::new()");
                Game::new()
            } else {
                Game::new_with_board(b0)
            }
        }
    };
    let mut m = GameModel::new(start);
    let mut replayed = b0;
    compare(ctx, &g, &m, &replayed, "construction", &case)?;
    let mut after_result = 0;
    let (mut illegal_attempt, mut accept_attempt) = (false, false);
    for (i, op) in ops.iter().enumerate() {
        // now and then the game is replaced by a copy of itself: Clone::clone, or Clone::clone_from
        // into a game that was created differently (a copy is the same game)
        match fp(&(start, i, "copy")) % 12 {
            0 => {
                g = g.clone();
                ctx.class("op:clone");
            }
            1 => {
                let mut other = if i % 2 == 0 { Game::new() } else { Game::new_with_board(replayed) };
                other.clone_from(&g);
                g = other;
                ctx.class("op:clone_from");
            }
            _ => {}
        }
        let open = m.result().is_none();
        if !open {
            after_result += 1;
        }
        let name = format!("op #{} {}", i, op.to_json());
        match op {
            Op::Move(mv) => {
                let legal = m.pos.legal_moves().contains(mv);
                let want = open && legal;
                if !legal {
                    illegal_attempt = true;
                    ctx.class("op:illegal-move-attempt");
                }
                let got = g.make_move(bridge::mv(*mv));
                if got != want {
                    ctx.fail(
                        if want { "game:legal-move-refused" } else if !open { "game:move-accepted-after-result" } else { "game:illegal-move-accepted" },
                        format!("{}: make_move returned {}, expected {} (game open: {}, move legal: {})", name, got, want, open, legal),
                        case(),
                    )?;
                }
                if got {
                    if legal {
                        m.push_move(*mv);
                    }
                    replayed = replayed.make_move_new(bridge::mv(*mv));
                }
            }
            Op::Offer(c) => {
                let got = g.offer_draw(bridge::col(*c));
                if got && !open {
                    ctx.fail("game:action-accepted-after-result", format!("{}: offer_draw returned true after the game had a result", name), case())?;
                }
                if !got && open {
                    // the statement does not oblige an open game to take every offer
                    ctx.class("op:offer-refused-while-open(not asserted)");
                }
                if got {
                    m.log.push(Act::Offer(*c));
                }
            }
            Op::Resign(c) => {
                let got = g.resign(bridge::col(*c));
                if got && !open {
                    ctx.fail("game:action-accepted-after-result", format!("{}: resign returned true after the game had a result", name), case())?;
                }
                if !got && open {
                    ctx.class("op:resignation-refused-while-open(not asserted)");
                }
                if got {
                    m.log.push(Act::Resign(*c));
                }
            }
            Op::Accept => {
                accept_attempt = true;
                let allowed = open && m.accept_allowed();
                let got = g.accept_draw();
                if got && !open {
                    ctx.fail("game:action-accepted-after-result", format!("{}: accept_draw returned true after the game had a result", name), case())?;
                } else if got && !allowed {
                    ctx.fail("game:draw-accepted-without-offer", format!("{}: accept_draw returned true although the latest action is neither an offer nor a move preceded by its mover's offer", name), case())?;
                }
                if allowed && !got {
                    ctx.class("op:accept-refused-though-allowed(not asserted)");
                }
                if got {
                    ctx.class("op:draw-accepted");
                    m.log.push(Act::Accept);
                }
            }
            Op::Declare => {
                let (cs, cf) = m.claimable();
                let got = g.declare_draw();
                if cs == cf {
                    if got != cs {
                        ctx.fail(if cs { "game:claim-refused" } else if !open { "game:action-accepted-after-result" } else { "game:claim-accepted" }, format!("{}: declare_draw returned {}, expected {}", name, got, cs), case())?;
                    }
                } else {
                    ctx.class("op:claim-with-ambiguous-position-identity(not asserted)");
                }
                if got {
                    ctx.class("op:draw-declared");
                    m.log.push(Act::Declare);
                }
            }
        }
        compare(ctx, &g, &m, &replayed, &name, &case)?;
    }
    match m.result() {
        Some(r) => ctx.class(&format!("result:{:?}", r)),
        None => ctx.class("result:none"),
    }
    if (m.result().is_some() && after_result >= 3) || (illegal_attempt && accept_attempt) {
        ctx.nontrivial(fp(&format!("{}{:?}", start.fen(), ops)));
    }
    if after_result >= 3 {
        ctx.class("program:>=3-ops-after-result");
    }
    ctx.sample(|| case());
    let _ = Color::White;
    Ok(())
}

pub fn run(cfg: &Cfg) -> i32 {
    let report = engine::run_shards(cfg, |shard, ctx, seedf| {
        // golden: a few scripted programs on finished and nearly finished positions
        if shard == 0 {
            let scripted: Vec<(&str, Vec<Op>)> = vec![
                ("mate-fools", vec![Op::Offer(Col::W), Op::Resign(Col::B), Op::Accept, Op::Declare, Op::Move(Mv::parse_uci("e2e4").unwrap())]),
                ("stalemate-queen", vec![Op::Resign(Col::W), Op::Offer(Col::B), Op::Accept, Op::Declare]),
                ("mate-in-1-backrank", vec![Op::Move(Mv::parse_uci("a1a8").unwrap()), Op::Resign(Col::B), Op::Offer(Col::W), Op::Accept, Op::Move(Mv::parse_uci("g8h8").unwrap())]),
                ("stalemate-in-1", vec![Op::Move(Mv::parse_uci("e6f7").unwrap()), Op::Resign(Col::W), Op::Accept, Op::Declare]),
                ("start", vec![Op::Accept, Op::Offer(Col::B), Op::Move(Mv::parse_uci("e2e4").unwrap()), Op::Accept]),
                ("start", vec![Op::Offer(Col::W), Op::Move(Mv::parse_uci("e2e4").unwrap()), Op::Accept, Op::Resign(Col::W), Op::Move(Mv::parse_uci("e7e5").unwrap())]),
                ("start", vec![Op::Offer(Col::W), Op::Move(Mv::parse_uci("e2e4").unwrap()), Op::Move(Mv::parse_uci("e7e5").unwrap()), Op::Accept]),
                ("start", vec![Op::Resign(Col::B), Op::Resign(Col::W), Op::Offer(Col::W), Op::Accept, Op::Declare, Op::Move(Mv::parse_uci("e2e4").unwrap())]),
            ];
            for (tag, ops) in scripted {
                let p = gen::curated_by_tag(tag).clone();
                engine::run_one(ctx, |ctx| check_program(ctx, &p, &ops))?;
            }
        }
        let strat = gen::raw_hist_strategy(20, 220);
        engine::pbt(ctx, seedf(1), cfg.per_shard(600_000, 8_000_000), &strat, |ctx, raw: &RawHist| {
            let (_, start) = match gen::start_of(raw) {
                Some(x) => x,
                None => {
                    ctx.reject();
                    return Ok(());
                }
            };
            let pol = [Policy::Special, Policy::Uniform, Policy::SeekRepetition, Policy::Endgame, Policy::Special, Policy::Reversible];
            let mut t = Tape::new(&raw.choices);
            let max_ops = 10 + raw.setup[95] as usize % 110;
            let ops = gen_program(&start, pol[raw.policy as usize % pol.len()], &mut t, max_ops, 3 + raw.setup[94] as usize % 8);
            check_program(ctx, &start, &ops)
        })?;
        Ok(())
    });
    engine::finish(
        report,
        EvidenceSpec {
            rule: "cases = operation programs (0-120 ops) over make_move with legal moves (chosen under special-move-, repetition-, capture-seeking and uniform policies), illegal move attempts (a move legal one ply earlier, an opponent's move, a pseudo-legal-but-illegal move, a random triple), offer_draw by either colour, accept_draw, resign by either colour, declare_draw; starts: curated (incl. already mated / stalemated and mate- or stalemate-in-one positions) and directly set-up valid positions; 3-10 further ops are issued after a result exists. After construction and after every op actions(), current_position() (against the rules and against the start advanced by the accepted moves), side_to_move() and result() are compared with a lock-step reference model, and every return value with the protocol. evaluations = programs. Non-trivial = a result is reached and >= 3 ops follow it, or the program contains an illegal move attempt and an accept attempt; distinct = program fingerprints.".into(),
            assumptions: vec!["reference game model (harness/src/gamemodel.rs) and rules engine".into(), "accept_draw is asserted one-directionally ('only if'), draw claims only where strict and FIDE position identity agree".into()],
            trusted_base: vec!["harness/src/refmodel.rs".into(), "harness/src/gamemodel.rs".into(), "proptest 1.11".into()],
            exhaustive: None,
            extra: json!({}),
        },
    )
}

pub fn replay(ctx: &mut Ctx, case: &Value) -> Result<(), Violation> {
    let (start, ops) = parse_case(case).ok_or_else(|| ctx.violation("INFRA", "bad C10 case".into(), Value::Null))?;
    check_program(ctx, &start, &ops)
}
