//! Shared drivers: golden tier (curated positions and their successors), generated histories,
//! complete enumeration of small endgames.

use crate::engine::{self, Cfg, Ctx, Violation};
use crate::gen::{self, MoveSource, Policy, RawHist, Step, Tape};
use crate::refmodel::*;

pub type Visit<'a> = &'a dyn Fn(&mut Ctx, &Step) -> Result<(), Violation>;

/// Golden tier: every curated position, and every position one legal move after it
/// (deterministic, guarantees a non-zero count in every rule class).
pub fn golden(cfg: &Cfg, shard: usize, ctx: &mut Ctx, visit: Visit) -> Result<(), Violation> {
    for (i, c) in gen::curated().iter().enumerate() {
        if i % cfg.shards != shard {
            continue;
        }
        let legal = c.pos.legal_moves();
        if legal.is_empty() {
            let mut src = MoveSource::Explicit { moves: &[], i: 0 };
            engine::run_one(ctx, |ctx| gen::walk(ctx, &c.pos, &mut src, 0, visit).map(|_| ()))?;
        }
        for m in legal {
            let ms = [m];
            let mut src = MoveSource::Explicit { moves: &ms, i: 0 };
            engine::run_one(ctx, |ctx| gen::walk(ctx, &c.pos, &mut src, 1, visit).map(|_| ()))?;
        }
    }
    Ok(())
}

/// `visit` on positions asked one right after the other (each a start position of its own).
/// Everything the checks observe is a pure function of the position, so what was asked before must
/// not matter; on failure the case names the whole sequence (`replay_hist` runs it again).
pub fn in_turn(ctx: &mut Ctx, seq: &[Pos], visit: Visit) -> Result<(), Violation> {
    let fens: Vec<String> = seq.iter().map(|p| p.fen()).collect();
    for p in seq {
        visit_position(ctx, p, visit).map_err(|mut v| {
            if v.case.get("asked_in_turn").is_none() {
                v.case = serde_json::json!({"asked_in_turn": fens, "failing": v.case});
            }
            v
        })?;
    }
    Ok(())
}

/// One visited position in `one_in`: the other valid positions with the same men on the same
/// squares (other side to move, castling rights dropped, en-passant state dropped) are visited in
/// turn with it - sibling, position, sibling, position ...
pub fn with_siblings(ctx: &mut Ctx, s: &Step, one_in: u64, visit: Visit) -> Result<(), Violation> {
    if crate::engine::fp(&(s.pos, "placement-siblings")) % one_in != 0 {
        return Ok(());
    }
    let sibs = gen::placement_siblings(s.pos);
    if sibs.is_empty() {
        return Ok(());
    }
    let mut seq: Vec<Pos> = vec![];
    for q in sibs {
        seq.push(q);
        seq.push(s.pos.clone());
    }
    ctx.class("position:visited-in-turn-with-its-placement-siblings");
    ctx.count("positions_visited_as_siblings", seq.len() as u64);
    in_turn(ctx, &seq, visit)
}

/// Generated histories (G-play over curated and directly set-up starts), with shrinking.
pub fn histories(
    ctx: &mut Ctx,
    seed: u64,
    cases: u32,
    min_plies: usize,
    max_plies: usize,
    policy_filter: Option<&[Policy]>,
    visit: Visit,
) -> Result<(), Violation> {
    let strat = gen::raw_hist_strategy(min_plies, max_plies);
    engine::pbt(ctx, seed, cases, &strat, |ctx, raw: &RawHist| {
        let (tag, start) = match gen::start_of(raw) {
            Some(x) => x,
            None => {
                ctx.reject();
                return Ok(());
            }
        };
        ctx.class(if tag == "setup" {
            "start:setup"
        } else if tag == "planted" {
            "start:planted"
        } else {
            "start:curated"
        });
        let mut policy = Policy::from_index(raw.policy as usize);
        if let Some(allowed) = policy_filter {
            policy = allowed[raw.policy as usize % allowed.len()];
        }
        let mut src = MoveSource::Tape { policy, tape: Tape::new(&raw.choices) };
        // one position in sixteen is also visited in turn with its placement siblings
        let both = |ctx: &mut Ctx, s: &Step| -> Result<(), Violation> {
            visit(ctx, s)?;
            with_siblings(ctx, s, 16, visit)
        };
        let plies = gen::walk(ctx, &start, &mut src, max_plies, &both)?;
        ctx.count("plies_played", plies as u64);
        Ok(())
    })
}

/// Replay of the common explicit case: start FEN + moves; the visitor runs on every position.
pub fn replay_hist(
    ctx: &mut Ctx,
    case: &serde_json::Value,
    visit: Visit,
) -> Result<(), Violation> {
    if let Some(list) = case.get("asked_in_turn").and_then(|x| x.as_array()) {
        let seq: Vec<Pos> = list.iter().filter_map(|f| f.as_str().and_then(|t| Pos::from_fen(t).ok())).collect();
        return in_turn(ctx, &seq, visit);
    }
    let (start, moves) = gen::parse_hist_case(case).map_err(|e| ctx.violation("INFRA", e, serde_json::Value::Null))?;
    let mut src = MoveSource::Explicit { moves: &moves, i: 0 };
    gen::walk(ctx, &start, &mut src, moves.len(), visit).map(|_| ())
}

/// All placements of K + X v K (X of either colour, either side to move); calls `f` for every
/// *valid* position.  Sharded by white king square.  Returns (raw placements, valid positions).
pub fn enum_three_men(
    shard: usize,
    shards: usize,
    kinds: &[Kind],
    mut f: impl FnMut(&Pos) -> Result<(), Violation>,
) -> Result<(u64, u64), Violation> {
    let mut raw = 0u64;
    let mut valid = 0u64;
    for wk in 0..64u8 {
        if wk as usize % shards != shard {
            continue;
        }
        for bk in 0..64u8 {
            if bk == wk {
                continue;
            }
            for &k in kinds {
                for xc in [Col::W, Col::B] {
                    for xs in 0..64u8 {
                        if xs == wk || xs == bk {
                            continue;
                        }
                        for stm in [Col::W, Col::B] {
                            raw += 1;
                            let mut p = Pos::empty();
                            p.board[wk as usize] = Some((Col::W, Kind::K));
                            p.board[bk as usize] = Some((Col::B, Kind::K));
                            p.board[xs as usize] = Some((xc, k));
                            p.stm = stm;
                            if p.validate().is_err() {
                                continue;
                            }
                            valid += 1;
                            f(&p)?;
                        }
                    }
                }
            }
        }
    }
    Ok((raw, valid))
}

/// Visit a bare position (no history) through the same visitor as walks.
pub fn visit_position(ctx: &mut Ctx, p: &Pos, visit: Visit) -> Result<(), Violation> {
    let mut src = MoveSource::Explicit { moves: &[], i: 0 };
    gen::walk(ctx, p, &mut src, 0, visit).map(|_| ())
}
