//! C02 — applying a legal move yields exactly the successor the rules prescribe; both entry
//! points agree whatever the output board held; the source is never modified.

use super::common;
use crate::bridge::{self, observe};
use crate::engine::{self, fp, Cfg, Ctx, EvidenceSpec, Violation};
use crate::gen::{self, Step};
use crate::refmodel::*;
use chess::Board;
use serde_json::json;
use std::str::FromStr;
use std::sync::OnceLock;

static GARBAGE: OnceLock<Vec<Board>> = OnceLock::new();
fn garbage_boards() -> &'static [Board] {
    GARBAGE.get_or_init(|| {
        let mut v = vec![Board::default()];
        for c in gen::curated() {
            if let Ok(b) = Board::from_str(&c.pos.fen()) {
                v.push(b);
            }
        }
        v
    })
}

pub fn check_step(ctx: &mut Ctx, s: &Step) -> Result<(), Violation> {
    let p = s.pos;
    let b = s.board;
    let before = *b;
    let before_text = b.to_string();
    let garbage = garbage_boards();
    for (i, &m) in s.legal.iter().enumerate() {
        ctx.eval();
        let special = gen::classify_move(ctx, p, m);
        if special {
            ctx.nontrivial(fp(&(p, m)));
        }
        let want = p.apply(m);
        let lm = bridge::mv(m);
        let got = b.make_move_new(lm);
        let o = observe(&got);
        let case = || s.case_with(json!({"move": m.uci(), "expected_successor": want.fen()}));
        if let Some(d) = bridge::obs_vs_pos(&o, &want) {
            let sig = if d.starts_with("castle rights") {
                "successor:castle-rights"
            } else if d.starts_with("side") {
                "successor:side-to-move"
            } else {
                "successor:placement"
            };
            ctx.fail(sig, format!("after {}: {}", m.uci(), d), case())?;
        }
        // en-passant recording
        match o.ep {
            Some(rec) => {
                let dbl = p.is_double_push(m);
                if !dbl {
                    ctx.fail("successor:ep-recorded-without-double-push", format!("after {} en_passant() = {}", m.uci(), sq_name(rec)), case())?;
                } else {
                    ctx.class("ep:recorded");
                    if !want.ep_adjacent_pawn() {
                        ctx.fail("successor:ep-recorded-without-adjacent-enemy-pawn", format!("after {} en_passant() = {} but no enemy pawn stands beside the pushed pawn", m.uci(), sq_name(rec)), case())?;
                    }
                    let okfile = file_of(rec) == file_of(m.to);
                    let oksq = rec == m.to || Some(rec) == want.ep;
                    if !okfile || !oksq {
                        ctx.fail("successor:ep-wrong-square", format!("after {} en_passant() = {}", m.uci(), sq_name(rec)), case())?;
                    }
                }
            }
            None => {
                if want.ep.is_some() && want.ep_adjacent_pawn() && want.legal_ep_exists() {
                    ctx.fail("successor:ep-not-recorded", format!("after {} a legal en-passant capture exists but en_passant() is None", m.uci()), case())?;
                }
                if want.ep.is_some() && want.ep_adjacent_pawn() {
                    ctx.class("ep:adjacent-but-not-recorded(capture illegal)");
                }
            }
        }
        // in-place entry point over garbage
        let gi = (fp(&(p, i as u64)) as usize) % garbage.len();
        let mut out = garbage[gi];
        b.make_move(lm, &mut out);
        if out != got {
            ctx.fail("make_move:differs-from-make_move_new", format!("make_move({}) into a used board != make_move_new", m.uci()), case())?;
        }
        let o2 = observe(&out);
        if let Some(d) = bridge::obs_diff(&o, &o2) {
            ctx.fail("make_move:observables-differ", format!("make_move({}) vs make_move_new: {}", m.uci(), d), case())?;
        }
        if let Some((_, pb, _)) = s.prev {
            let mut out2 = *pb;
            b.make_move(lm, &mut out2);
            if out2 != got {
                ctx.fail("make_move:differs-from-make_move_new", format!("make_move({}) into the predecessor board != make_move_new", m.uci()), case())?;
            }
        }
        if *b != before {
            ctx.fail("make_move:source-modified", format!("source board changed by applying {}", m.uci()), case())?;
        }
    }
    if b.to_string() != before_text {
        ctx.fail("make_move:source-modified", "source board text changed".into(), s.case())?;
    }
    ctx.sample(|| s.case_with(json!({"moves_applied": s.legal.len()})));
    Ok(())
}

pub fn run(cfg: &Cfg) -> i32 {
    let report = engine::run_shards(cfg, |shard, ctx, seedf| {
        common::golden(cfg, shard, ctx, &check_step)?;
        common::histories(ctx, seedf(1), cfg.per_shard(200_000, 3_000_000), 4, 40, None, &check_step)?;
        Ok(())
    });
    engine::finish(
        report,
        EvidenceSpec {
            rule: "cases = (position, legal move) pairs: every legal move of every position on golden and generated histories is applied through make_move_new and through make_move into a used board (rotating over ~117 boards and the predecessor board). evaluations = pairs. Non-trivial = capture, en passant, castling, double push, promotion or a king/rook move that changes rights; distinct = distinct (position, move) fingerprints.".into(),
            assumptions: vec!["reference apply() implements the FIDE rules for making a move".into()],
            trusted_base: vec!["harness/src/refmodel.rs".into(), "proptest 1.11".into()],
            exhaustive: None,
            extra: json!({"not_asserted": "whether en-passant state is recorded when an enemy pawn is adjacent but the capture is illegal (both allowed by the statement; counted in class ep:adjacent-but-not-recorded)"}),
        },
    )
}

pub fn replay(ctx: &mut Ctx, case: &serde_json::Value) -> Result<(), Violation> {
    common::replay_hist(ctx, case, &check_step)
}
