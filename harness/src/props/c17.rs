//! C17 — colour and left-right symmetry: mirrored positions behave as mirror images
//! (metamorphic: the library against itself under the mirror maps).

use super::common;
use crate::bridge::{self, observe, Obs};
use crate::engine::{self, fp, Cfg, Ctx, EvidenceSpec, Violation};
use crate::gen::Step;
use crate::refmodel::*;
use chess::{BitBoard, Board, MoveGen};
use serde_json::{json, Value};

#[derive(Clone, Copy, PartialEq, Eq, Debug)]
enum Mirror {
    /// swap colours, flip ranks
    V,
    /// flip files (positions without castling rights)
    H,
}
impl Mirror {
    fn sq(self, s: Sq) -> Sq {
        match self {
            Mirror::V => s ^ 56,
            Mirror::H => s ^ 7,
        }
    }
    fn mv(self, m: Mv) -> Mv {
        Mv::new(self.sq(m.from), self.sq(m.to), m.promo)
    }
    fn bb(self, b: u64) -> u64 {
        (0..64u8).filter(|s| b >> s & 1 == 1).fold(0u64, |a, s| a | 1u64 << self.sq(s))
    }
    fn pos(self, p: &Pos) -> Pos {
        match self {
            Mirror::V => p.mirror_v(),
            Mirror::H => p.mirror_h(),
        }
    }
    fn name(self) -> &'static str {
        match self {
            Mirror::V => "colour-swap/vertical",
            Mirror::H => "left-right",
        }
    }
}

/// Image of an observation under the mirror (hash excluded: it legitimately differs).
fn map_obs(mi: Mirror, o: &Obs) -> Obs {
    let mut n = o.clone();
    n.placement = [None; 64];
    for s in 0..64u8 {
        if let Some((c, k)) = o.placement[s as usize] {
            n.placement[mi.sq(s) as usize] = Some((if mi == Mirror::V { c.other() } else { c }, k));
        }
    }
    if mi == Mirror::V {
        n.stm = o.stm.other();
        n.castle = [o.castle[2], o.castle[3], o.castle[0], o.castle[1]];
        n.white = mi.bb(o.black);
        n.black = mi.bb(o.white);
    } else {
        n.white = mi.bb(o.white);
        n.black = mi.bb(o.black);
    }
    n.ep = o.ep.map(|s| mi.sq(s));
    n.checkers = mi.bb(o.checkers);
    n.pinned = mi.bb(o.pinned);
    n.combined = mi.bb(o.combined);
    for i in 0..6 {
        n.pieces[i] = mi.bb(o.pieces[i]);
    }
    n.hash = 0;
    n
}
fn strip(o: &Obs) -> Obs {
    let mut n = o.clone();
    n.hash = 0;
    // only the mover's pinned pieces are part of the statement
    let own = if n.stm == Col::W { n.white } else { n.black };
    n.pinned &= own;
    n
}

fn sorted_moves(b: &Board) -> Vec<Mv> {
    let mut v = bridge::lib_moves(b);
    v.sort();
    v
}

fn check_mirror(ctx: &mut Ctx, mi: Mirror, s: &Step) -> Result<(), Violation> {
    let p = s.pos;
    let b = s.board;
    let case = || s.case_with(json!({"mirror": mi.name(), "mirrored_position": mi.pos(s.pos).fen()}));
    let mp = mi.pos(p);
    let mb = match bridge::board_via_builder(&mp) {
        Ok(x) => x,
        Err(e) => {
            return ctx.fail("mirror:image-rejected", format!("the {} mirror image {:?} is rejected: {}", mi.name(), mp.fen(), e), case());
        }
    };
    ctx.class(if mi == Mirror::V { "mirror:colour-swap" } else { "mirror:left-right" });
    // observables of the position itself
    let o = observe(b);
    let om = observe(&mb);
    if let Some(d) = bridge::obs_diff(&strip(&map_obs(mi, &o)), &strip(&om)) {
        ctx.fail("mirror:position-observables", format!("{} mirror: image of observables vs observables of image: {}", mi.name(), d), case())?;
    }
    // legal moves
    let mut mapped: Vec<Mv> = sorted_moves(b).into_iter().map(|m| mi.mv(m)).collect();
    mapped.sort();
    let there = sorted_moves(&mb);
    if mapped != there {
        let only_here: Vec<String> = mapped.iter().filter(|m| !there.contains(m)).map(|m| mi.mv(*m).uci()).collect();
        let only_there: Vec<String> = there.iter().filter(|m| !mapped.contains(m)).map(|m| m.uci()).collect();
        ctx.fail(
            "mirror:legal-moves",
            format!("{} mirror: moves {:?} have no counterpart in the image; image-only moves {:?}", mi.name(), only_here, only_there),
            case(),
        )?;
    }
    // the single-move legality query, on the moves that would be legal but for the king's safety
    // (interpositions and captures in double check, pinned pieces stepping off their line, ...)
    for m in p.pseudo_moves() {
        ctx.evals_add(1);
        let (here, there) = (b.legal(bridge::mv(m)), mb.legal(bridge::mv(mi.mv(m))));
        if here != there {
            ctx.fail("mirror:legal-query", format!("{} mirror: legal({}) = {} but legal({}) = {} on the image", mi.name(), m.uci(), here, mi.mv(m).uci(), there), case())?;
        }
    }
    if b.status() != mb.status() {
        ctx.fail("mirror:status", format!("{} mirror: status {:?} vs {:?}", mi.name(), b.status(), mb.status()), case())?;
    }
    if MoveGen::new_legal(b).len() != MoveGen::new_legal(&mb).len() {
        ctx.fail("mirror:len", "move counts differ".into(), case())?;
    }
    // every successor
    for m in sorted_moves(b) {
        if !s.legal.contains(&m) {
            continue; // exactness of move generation is C01's business
        }
        ctx.evals_add(1);
        let a = observe(&b.make_move_new(bridge::mv(m)));
        let c = observe(&mb.make_move_new(bridge::mv(mi.mv(m))));
        if let Some(d) = bridge::obs_diff(&strip(&map_obs(mi, &a)), &strip(&c)) {
            ctx.fail("mirror:successor", format!("{} mirror, after {} / {}: {}", mi.name(), m.uci(), mi.mv(m).uci(), d), case())?;
        }
        // the same through the in-place entry point on both sides
        let a2 = observe(&bridge::make_in_place(b, bridge::mv(m), &mb));
        let c2 = observe(&bridge::make_in_place(&mb, bridge::mv(mi.mv(m)), b));
        if let Some(d) = bridge::obs_diff(&strip(&map_obs(mi, &a2)), &strip(&c2)) {
            ctx.fail("mirror:successor", format!("{} mirror, after {} / {} (in-place make_move): {}", mi.name(), m.uci(), mi.mv(m).uci(), d), case())?;
        }
    }
    // the whole history played in parallel on the image of the start position
    if !s.moves.is_empty() {
        let ms = mi.pos(s.start);
        if let Ok(mut pb) = bridge::board_via_builder(&ms) {
            for m in s.moves {
                pb = bridge::advance(&pb, bridge::mv(mi.mv(*m)), fp(&ms) >> 5, &pb);
            }
            ctx.count("parallel_plies", s.moves.len() as u64);
            if let Some(d) = bridge::obs_diff(&strip(&map_obs(mi, &o)), &strip(&observe(&pb))) {
                ctx.fail("mirror:parallel-history", format!("{} mirror, {} moves played in parallel: {}", mi.name(), s.moves.len(), d), case())?;
            }
        }
    }
    // bitboard colour reversal agrees with the vertical map
    if mi == Mirror::V {
        for x in [o.combined, o.white, o.checkers, o.pinned] {
            if BitBoard::new(x).reverse_colors().0 != mi.bb(x) {
                ctx.fail("mirror:reverse_colors", format!("BitBoard({:#x}).reverse_colors() is not the rank flip", x), case())?;
            }
        }
    }
    Ok(())
}

pub fn check_step(ctx: &mut Ctx, s: &Step) -> Result<(), Violation> {
    let p = s.pos;
    ctx.eval();
    check_mirror(ctx, Mirror::V, s)?;
    let no_rights = !p.castle.iter().any(|x| *x) && !s.start.castle.iter().any(|x| *x);
    if no_rights {
        check_mirror(ctx, Mirror::H, s)?;
    }
    let nt = p.castle.iter().any(|x| *x) || p.ep.is_some() || p.in_check(p.stm) || s.legal.iter().any(|m| m.promo.is_some()) || s.moves.len() >= 10;
    if nt {
        ctx.nontrivial(fp(&(p, s.moves.len() >= 10)));
    }
    if p.ep.is_some() {
        ctx.class("pos:ep-target");
    }
    if p.castle.iter().any(|x| *x) {
        ctx.class("pos:castle-rights");
    }
    if p.in_check(p.stm) {
        ctx.class("pos:in-check");
    }
    ctx.sample(|| s.case());
    Ok(())
}

pub fn run(cfg: &Cfg) -> i32 {
    let report = engine::run_shards(cfg, |shard, ctx, seedf| {
        common::golden(cfg, shard, ctx, &check_step)?;
        common::histories(ctx, seedf(1), cfg.per_shard(120_000, 2_000_000), 4, 40, None, &check_step)?;
        Ok(())
    });
    engine::finish(
        report,
        EvidenceSpec {
            rule: "cases = positions on golden and generated histories; each is mirrored (colour swap + rank flip always; file flip when neither it nor its start has castling rights) through BoardBuilder, and legal moves, the legality query on every pseudo-legal move, status, checkers, mover's pinned pieces, every successor and the whole history played in parallel on the image are compared under the map. evaluations = positions + successors compared. Non-trivial = castling rights, en-passant target, check, promotion available, or >= 10 plies played in parallel; distinct = position fingerprints.".into(),
            assumptions: vec!["the mirror maps on squares/moves are the only trusted part; the oracle is the library itself on the image".into()],
            trusted_base: vec!["harness/src/props/c17.rs mirror maps".into(), "proptest 1.11".into()],
            exhaustive: None,
            extra: json!({}),
        },
    )
}

pub fn replay(ctx: &mut Ctx, case: &Value) -> Result<(), Violation> {
    common::replay_hist(ctx, case, &check_step)
}
