//! C01 — legal move generation is exact: no missing, extra or duplicate moves; the legality
//! query is true for exactly the legal (source, destination, promotion) triples.

use super::common;
use crate::bridge;
use crate::engine::{self, fp, Cfg, Ctx, EvidenceSpec, Violation};
use crate::gen::{self, Step};
use crate::refmodel::*;
use chess::{Board, ChessMove, MoveGen, Square};
use serde_json::json;

fn triple(i: usize) -> Mv {
    // index -> (from, to, promo) over all 64*64*5 values
    let promo = match i % 5 {
        0 => None,
        1 => Some(Kind::Q),
        2 => Some(Kind::R),
        3 => Some(Kind::B),
        _ => Some(Kind::N),
    };
    let j = i / 5;
    Mv::new((j / 64) as u8, (j % 64) as u8, promo)
}

fn mvs(v: &[Mv]) -> Vec<String> {
    v.iter().map(|m| m.uci()).collect()
}

pub fn check_position(ctx: &mut Ctx, s: &Step, full_sweep_one_in: u64) -> Result<(), Violation> {
    let p = s.pos;
    let b: &Board = s.board;
    let mut legal: Vec<Mv> = s.legal.to_vec();
    legal.sort();
    ctx.eval();
    let nontrivial = gen::classify_position(ctx, p, &legal);
    let pfp = fp(p);
    if nontrivial {
        ctx.nontrivial(pfp);
    }
    ctx.sample(|| s.case());

    // 1. iterator: multiset equality
    let mut got = bridge::lib_moves(b);
    got.sort();
    if got != legal {
        let missing: Vec<Mv> = legal.iter().copied().filter(|m| !got.contains(m)).collect();
        let extra: Vec<Mv> = got.iter().copied().filter(|m| !legal.contains(m)).collect();
        let mut dups = vec![];
        for w in got.windows(2) {
            if w[0] == w[1] {
                dups.push(w[0]);
            }
        }
        let (sig, what) = if !missing.is_empty() {
            ("movegen:missing-move", format!("legal move(s) {:?} not generated", mvs(&missing)))
        } else if !extra.is_empty() {
            ("movegen:extra-move", format!("generated move(s) {:?} are not legal", mvs(&extra)))
        } else {
            ("movegen:duplicate-move", format!("move(s) {:?} generated twice", mvs(&dups)))
        };
        // second derivation for triage: brute-force king safety of each disputed move
        let disputed: Vec<Mv> = missing.iter().chain(extra.iter()).copied().collect();
        let second: Vec<String> = disputed
            .iter()
            .map(|m| {
                let pseudo = p.pseudo_moves().contains(m);
                let safe = pseudo && !p.apply(*m).in_check(p.stm);
                format!("{}: pseudo-legal={} king-safe-after={}", m.uci(), pseudo, safe)
            })
            .collect();
        ctx.fail(sig, what, s.case_with(json!({"library_moves": mvs(&got), "rules_moves": mvs(&legal), "second_derivation": second})))?;
    }
    // 1b. the same position as produced by the other ways of obtaining it: both move-application
    // entry points (the generator trusts the cached check / pin data they compute), and - for one
    // position in four - null moves and the deprecated editing API
    {
        let mut variants: Vec<(Pos, Board, String)> = vec![];
        if let Some((_, pb, m)) = s.prev {
            variants.push((p.clone(), pb.make_move_new(bridge::mv(m)), "make_move_new".into()));
            variants.push((p.clone(), bridge::make_in_place(pb, bridge::mv(m), b), "make_move (in place)".into()));
        }
        if pfp % 4 == 1 {
            variants.extend(super::editapi::other_ways(p, b, 2));
        }
        for (vp, vb, how) in variants {
            ctx.evals_add(1);
            let mut want = vp.legal_moves();
            want.sort();
            let mut got = bridge::lib_moves(&vb);
            got.sort();
            let l = MoveGen::new_legal(&vb).len();
            if got != want || l != want.len() {
                let missing: Vec<Mv> = want.iter().copied().filter(|m| !got.contains(m)).collect();
                let extra: Vec<Mv> = got.iter().copied().filter(|m| !want.contains(m)).collect();
                let sig = if !missing.is_empty() { "movegen:missing-move" } else if !extra.is_empty() { "movegen:extra-move" } else { "movegen:len" };
                ctx.fail(
                    sig,
                    format!("position {:?} obtained through {}: missing {:?}, extra {:?}, len() = {} for {} legal moves", vp.fen(), how, mvs(&missing), mvs(&extra), l, want.len()),
                    s.case_with(json!({"obtained_through": how, "position_checked": vp.fen()})),
                )?;
            }
        }
    }
    // 2. fresh len()
    let l = MoveGen::new_legal(b).len();
    if l != legal.len() {
        ctx.fail("movegen:len", format!("fresh MoveGen::len() = {} but {} legal moves", l, legal.len()), s.case())?;
    }
    // 2b. the other ways of iterating the generator (a type may specialise any Iterator method)
    {
        let n = legal.len();
        let cnt = MoveGen::new_legal(b).count();
        let folded = MoveGen::new_legal(b).fold(0usize, |a, _| a + 1);
        let mut via_for: Vec<Mv> = vec![];
        for m in MoveGen::new_legal(b) {
            via_for.push(bridge::rmv(m));
        }
        via_for.sort();
        let mut via_by_ref: Vec<Mv> = vec![];
        let mut mg = MoveGen::new_legal(b);
        for m in &mut mg {
            via_by_ref.push(bridge::rmv(m));
        }
        via_by_ref.sort();
        let last_ok = match MoveGen::new_legal(b).last() {
            Some(m) => legal.contains(&bridge::rmv(m)),
            None => n == 0,
        };
        let mut it = MoveGen::new_legal(b);
        let k = (pfp % (n as u64 + 1)) as usize;
        let nth = it.nth(k).map(bridge::rmv);
        let rest = it.count();
        let nth_ok = if k < n { nth.map_or(false, |m| legal.contains(&m)) && rest == n - k - 1 } else { nth.is_none() && rest == 0 };
        if cnt != n || folded != n || via_for != legal || via_by_ref != legal || !last_ok || !nth_ok || mg.next().is_some() {
            ctx.fail(
                "movegen:iterator-adaptors",
                format!("{} legal moves, but count() = {}, fold = {}, for-loop yields {}, by-ref loop yields {}, last() legal = {}, nth({}) consistent = {}", n, cnt, folded, via_for.len(), via_by_ref.len(), last_ok, k, nth_ok),
                s.case(),
            )?;
        }
    }
    // 3. deprecated array API
    if legal.len() <= 256 {
        let mut arr = [ChessMove::new(Square::A1, Square::A1, None); 256];
        #[allow(deprecated)]
        let n = b.enumerate_moves(&mut arr);
        let mut got2: Vec<Mv> = arr[..n.min(256)].iter().map(|m| bridge::rmv(*m)).collect();
        got2.sort();
        if n != legal.len() || got2 != legal {
            ctx.fail(
                "movegen:enumerate_moves",
                format!("enumerate_moves returned {} moves {:?}, rules say {:?}", n, mvs(&got2), mvs(&legal)),
                s.case(),
            )?;
        }
    }
    // 4. legality query
    let mut cands: Vec<Mv> = legal.clone();
    let illegal_pseudo = p.illegal_pseudo_moves();
    ctx.class_n("query:illegal-pseudo-legal (pin/king-safety/castle)", illegal_pseudo.len() as u64);
    cands.extend(illegal_pseudo);
    for m in &legal {
        match m.promo {
            Some(_) => {
                cands.push(Mv::new(m.from, m.to, None));
                // impossible promotion pieces are move values too
                cands.push(Mv::new(m.from, m.to, Some(Kind::K)));
                cands.push(Mv::new(m.from, m.to, Some(Kind::P)));
            }
            None => {
                for k in PROMOS {
                    cands.push(Mv::new(m.from, m.to, Some(k)));
                }
            }
        }
    }
    // opponent's pieces
    let mut flipped = p.clone();
    flipped.stm = p.stm.other();
    flipped.ep = None;
    cands.extend(flipped.pseudo_moves());
    for sq in 0..64u8 {
        cands.push(Mv::new(sq, sq, None));
    }
    let full = pfp % full_sweep_one_in == 0;
    if full {
        ctx.class("query:full-20480-sweep");
        cands = (0..20480).map(triple).collect();
    } else {
        for j in 0..256u64 {
            cands.push(triple(((pfp % 20480 + j * 8191) % 20480) as usize));
        }
    }
    ctx.count("legality_queries", cands.len() as u64);
    for m in cands {
        let want = legal.binary_search(&m).is_ok();
        let gotq = b.legal(bridge::mv(m));
        if gotq != want {
            let sig = if want { "legal-query:false-for-legal-move" } else { "legal-query:true-for-illegal-move" };
            ctx.fail(sig, format!("Board::legal({}) = {} but the rules say {}", m.uci(), gotq, want), s.case_with(json!({"queried": m.uci()})))?;
        }
    }
    // 5. legal_quick on generated moves
    for m in &legal {
        if !MoveGen::legal_quick(b, bridge::mv(*m)) {
            ctx.fail("legal_quick:false-for-generated-move", format!("MoveGen::legal_quick({}) = false for a legal generated move", m.uci()), s.case_with(json!({"queried": m.uci()})))?;
        }
    }
    Ok(())
}

pub fn run(cfg: &Cfg) -> i32 {
    let sweep = cfg.tier.pick(64u64, 16u64);
    let report = engine::run_shards(cfg, |shard, ctx, seedf| {
        let visit = |ctx: &mut Ctx, s: &Step| check_position(ctx, s, sweep);
        common::golden(cfg, shard, ctx, &visit)?;
        // complete 3-man enumeration (K+X v K), thorough adds nothing here: already complete
        let kinds = [Kind::Q, Kind::R, Kind::B, Kind::N, Kind::P];
        let stride = cfg.tier.pick(4u64, 1u64);
        let mut n = 0u64;
        let (raw, valid) = common::enum_three_men(shard, cfg.shards, &kinds, |p| {
            n += 1;
            if n % stride != 0 {
                return Ok(());
            }
            engine::run_one(ctx, |ctx| common::visit_position(ctx, p, &visit))
        })?;
        ctx.count("enum3_raw_placements", raw);
        ctx.count("enum3_valid_positions", valid);
        ctx.count("enum3_checked", valid / stride);
        if cfg.tier == engine::Tier::Thorough {
            // four-man classes (every 7th placement): KQvKR, KRvKR, KBNvK, KPvKP, KQvKP, KNNvK
            for class in super::c04::FOUR_MEN {
                let (raw, valid) = super::c04::enum_four_men(shard, cfg.shards, class, 7, |p| {
                    engine::run_one(ctx, |ctx| common::visit_position(ctx, p, &visit))
                })?;
                ctx.count("enum4_raw_placements", raw);
                ctx.count("enum4_valid_positions_checked", valid);
            }
        }
        common::histories(ctx, seedf(1), cfg.per_shard(60_000, 1_200_000), 4, 40, None, &visit)?;
        Ok(())
    });
    engine::finish(
        report,
        EvidenceSpec {
            rule: "cases = positions: curated corpus + successors, complete K+X v K enumeration (every 4th in quick, all in thorough), and every position on generated legal histories (tape-driven choice among the reference model's legal moves under six policies; starts curated or set up directly, en-passant state always created by a reference double push). evaluations = positions checked. A position is non-trivial when it has an en-passant target, a castling right, an available promotion, a pinned piece or the mover is in check; distinct = distinct position fingerprints (placement, side, rights, ep target).".into(),
            assumptions: vec![
                "the reference rules engine (harness/src/refmodel.rs) is correct; it must reproduce published perft counts at start-up".into(),
                "Square/ChessMove conversions at the API boundary are exact (checked exhaustively by C13/C16)".into(),
            ],
            trusted_base: vec!["harness/src/refmodel.rs".into(), "proptest 1.11 (generation, shrinking)".into()],
            exhaustive: None,
            extra: json!({"exhaustive_subdomain": "K+X v K, X in {Q,R,B,N,P}: complete in the thorough tier, every 4th valid position in the quick tier", "legal_query": "per position: all legal moves, all pseudo-legal-but-illegal moves, promotion-field variants, opponent's pseudo-legal moves, 64 same-square moves, 256 scattered triples; all 20480 triples on one position in 64 (quick) / 16 (thorough)"}),
        },
    )
}

pub fn replay(ctx: &mut Ctx, case: &serde_json::Value) -> Result<(), Violation> {
    let visit = |ctx: &mut Ctx, s: &Step| check_position(ctx, s, 1);
    common::replay_hist(ctx, case, &visit)
}
