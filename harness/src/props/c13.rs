//! C13 — coordinate (UCI) move and square text round-trips; parsing is total and, when it
//! succeeds, the rendering of the result is a prefix of the input.

use crate::bridge;
use crate::engine::{self, fp, guarded, Cfg, Ctx, EvidenceSpec, Violation};
use crate::refmodel::*;
use chess::{ChessMove, File, Rank, Square};
use proptest::prelude::*;
use serde_json::{json, Value};
use std::str::FromStr;

fn expected_sq(s: Sq) -> String {
    let files = ['a', 'b', 'c', 'd', 'e', 'f', 'g', 'h'];
    let ranks = ['1', '2', '3', '4', '5', '6', '7', '8'];
    format!("{}{}", files[(s % 8) as usize], ranks[(s / 8) as usize])
}
fn expected_mv(m: Mv) -> String {
    let mut t = format!("{}{}", expected_sq(m.from), expected_sq(m.to));
    match m.promo {
        Some(Kind::Q) => t.push('q'),
        Some(Kind::R) => t.push('r'),
        Some(Kind::B) => t.push('b'),
        Some(Kind::N) => t.push('n'),
        _ => {}
    }
    t
}

pub fn check_move_value(ctx: &mut Ctx, m: Mv) -> Result<(), Violation> {
    ctx.eval();
    let case = || json!({"move": {"from": m.from, "to": m.to, "promotion": m.promo.map(|k| format!("{:?}", k))}});
    ctx.set_case(case());
    let lm = bridge::mv(m);
    let text = lm.to_string();
    if m.promo.is_some() {
        ctx.nontrivial(fp(&m));
        ctx.class("move-value:promotion");
    } else {
        ctx.class("move-value:plain");
    }
    if text != expected_mv(m) {
        ctx.fail("uci:render", format!("move renders as {:?}, expected {:?}", text, expected_mv(m)), case())?;
    }
    match guarded(|| ChessMove::from_str(&text)) {
        Err(p) => ctx.fail("uci:panic", format!("ChessMove::from_str({:?}) panicked: {}", text, p), case())?,
        Ok(Ok(back)) => {
            if back != lm {
                ctx.fail("uci:roundtrip", format!("{:?} parses back to {}", text, back), case())?;
            }
        }
        Ok(Err(e)) => ctx.fail("uci:roundtrip", format!("own rendering {:?} rejected: {:?}", text, e), case())?,
    }
    // the independently computed text parses to the same value too
    if let Ok(Ok(back)) = guarded(|| ChessMove::from_str(&expected_mv(m))) {
        if back != lm {
            ctx.fail("uci:roundtrip", format!("{:?} parses to {}", expected_mv(m), back), case())?;
        }
    } else {
        ctx.fail("uci:roundtrip", format!("{:?} rejected", expected_mv(m)), case())?;
    }
    Ok(())
}

pub fn check_square_value(ctx: &mut Ctx, s: Sq) -> Result<(), Violation> {
    ctx.eval();
    let case = || json!({"square": s});
    ctx.set_case(case());
    let q = bridge::sq(s);
    let text = q.to_string();
    if text != expected_sq(s) {
        ctx.fail("square:render", format!("square {} renders as {:?}, expected {:?}", s, text, expected_sq(s)), case())?;
    }
    match guarded(|| Square::from_str(&expected_sq(s))) {
        Ok(Ok(back)) if back == q => {}
        other => ctx.fail("square:roundtrip", format!("{:?} parses to {:?}", expected_sq(s), other.map(|r| r.map(|x| x.to_string()).map_err(|e| format!("{:?}", e)))), case())?,
    }
    Ok(())
}

pub fn check_text(ctx: &mut Ctx, t: &str) -> Result<(), Violation> {
    ctx.eval();
    let case = || json!({"text": t});
    ctx.set_case(case());
    let multibyte = !t.is_ascii();
    if multibyte || (t.len() != 4 && t.len() != 5) {
        ctx.nontrivial(fp(&t));
    }
    if multibyte {
        ctx.class("text:non-ascii");
    }
    match guarded(|| ChessMove::from_str(t)) {
        Err(p) => ctx.fail("uci:panic", format!("ChessMove::from_str({:?}) panicked: {}", t, p), case())?,
        Ok(Ok(m)) => {
            ctx.class("text:parsed-as-move");
            let r = m.to_string();
            if !t.starts_with(&r) {
                ctx.fail("uci:not-a-prefix", format!("ChessMove::from_str({:?}) = {} whose rendering is not a prefix of the input", t, r), case())?;
            }
        }
        Ok(Err(_)) => ctx.class("text:rejected-as-move"),
    }
    match guarded(|| Square::from_str(t)) {
        Err(p) => ctx.fail("square:panic", format!("Square::from_str({:?}) panicked: {}", t, p), case())?,
        Ok(Ok(s)) => {
            ctx.class("text:parsed-as-square");
            if !t.starts_with(&s.to_string()) {
                ctx.fail("square:not-a-prefix", format!("Square::from_str({:?}) = {}", t, s), case())?;
            }
        }
        Ok(Err(_)) => {}
    }
    // the deprecated second entry point must agree with from_str
    #[allow(deprecated)]
    match (guarded(|| Square::from_string(t.to_string())), guarded(|| Square::from_str(t).ok())) {
        (Err(p), _) => ctx.fail("square:panic", format!("Square::from_string({:?}) panicked: {}", t, p), case())?,
        (Ok(a), Ok(b)) if a != b => ctx.fail("square:from_string-differs", format!("Square::from_string({:?}) = {:?} but Square::from_str gives {:?}", t, a.map(|s| s.to_string()), b.map(|s| s.to_string())), case())?,
        _ => {}
    }
    if let Err(p) = guarded(|| File::from_str(t).is_ok()) {
        ctx.fail("file:panic", format!("File::from_str({:?}) panicked: {}", t, p), case())?;
    }
    if let Err(p) = guarded(|| Rank::from_str(t).is_ok()) {
        ctx.fail("rank:panic", format!("Rank::from_str({:?}) panicked: {}", t, p), case())?;
    }
    // parsing is a pure function: whatever text was parsed before, the moves this text is near to
    // (same two squares, every promotion option) and its squares must still round-trip afterwards
    if let (Some(a), Some(b)) = (t.get(0..2).and_then(parse_sq), t.get(2..4).and_then(parse_sq)) {
        ctx.class("text:begins-with-two-squares");
        for promo in [None, Some(Kind::Q), Some(Kind::R), Some(Kind::B), Some(Kind::N)] {
            let m = Mv::new(a, b, promo);
            let lm = bridge::mv(m);
            let text = expected_mv(m);
            match guarded(|| (ChessMove::from_str(&text), lm.to_string())) {
                Ok((Ok(back), rendered)) if back == lm && rendered == text => {}
                other => {
                    let what = format!("after parsing {:?}: {:?} renders / parses as {:?}", t, text, other.map(|(r, s)| (r.map(|x| x.to_string()).map_err(|e| format!("{:?}", e)), s)));
                    ctx.fail("uci:roundtrip", what, json!({"text": t, "then": text}))?;
                }
            }
        }
        for q in [a, b] {
            match guarded(|| Square::from_str(&expected_sq(q))) {
                Ok(Ok(back)) if back == bridge::sq(q) => {}
                _ => ctx.fail("square:roundtrip", format!("after parsing {:?}: square {:?} no longer parses to itself", t, expected_sq(q)), json!({"text": t, "then": expected_sq(q)}))?,
            }
        }
    }
    // and whatever the text was, a valid rendering chosen by its fingerprint still parses to its
    // value right afterwards (a rejected text must leave nothing behind)
    let h = fp(&(t, "afterwards"));
    let i = (h % 20480) as usize;
    let promo = [None, Some(Kind::Q), Some(Kind::R), Some(Kind::B), Some(Kind::N)][i % 5];
    let m = Mv::new(((i / 5) / 64) as u8, ((i / 5) % 64) as u8, promo);
    let text = expected_mv(m);
    match guarded(|| ChessMove::from_str(&text)) {
        Ok(Ok(back)) if back == bridge::mv(m) => {}
        other => ctx.fail("uci:roundtrip", format!("right after parsing {:?}: {:?} parses as {:?}", t, text, other.map(|r| r.map(|x| x.to_string()).map_err(|e| format!("{:?}", e)))), json!({"text": t, "then": text}))?,
    }
    let q = ((h >> 20) % 64) as u8;
    match guarded(|| Square::from_str(&expected_sq(q))) {
        Ok(Ok(back)) if back == bridge::sq(q) => {}
        _ => ctx.fail("square:roundtrip", format!("right after parsing {:?}: square {:?} no longer parses to itself", t, expected_sq(q)), json!({"text": t, "then": expected_sq(q)}))?,
    }
    ctx.sample(|| json!({"text": t}));
    Ok(())
}

/// Texts that chess programs and files put where a move is expected (null moves, castling and
/// result notations, placeholders): none of them is a coordinate move, and whichever of them the
/// library chooses to accept must still obey the prefix rule.
pub const TOKENS: [&str; 44] = [
    "0000", "00000", "0000q", "000", "null", "NULL", "(none)", "none", "(null)", "--", "-", "@@@@", "Z0", "pass", "....", "...", "O-O", "O-O-O", "0-0", "0-0-0", "o-o", "o-o-o", "1-0", "0-1",
    "1/2-1/2", "*", "e.p.", "", " ", "a1a1", "h8h8", "e1g1", "e8c8", "e7e8", "e7e8=Q", "e7e8=q", "e2-e4", "e2e4+", "e2e4#", "Pe2e4", "P@e4", "N@f3", "bestmove e2e4", "e2e4 e7e5",
];

const SHORT_A: &str = "abcdefgh0123456789qrbnkpQRBNKPO-=+#x. @()_/*\u{e9}";
const SHORT_B: &str = "abcdefgh0123456789qrbn-O ";

/// Every string of up to `len` characters over `alphabet` whose index falls to this shard: only
/// strings that parse (or panic) go through the full `check_text`.
pub fn check_short_strings(ctx: &mut Ctx, alphabet: &str, len: usize, shard: usize, shards: usize) -> Result<(), Violation> {
    let a: Vec<char> = alphabet.chars().collect();
    let n = a.len() as u64;
    let total = n.pow(len as u32);
    let mut t = String::with_capacity(8);
    let mut i = shard as u64;
    let mut parsed = 0u64;
    while i < total {
        t.clear();
        let mut x = i;
        for _ in 0..len {
            t.push(a[(x % n) as usize]);
            x /= n;
        }
        #[allow(deprecated)]
        let quiet = matches!(guarded(|| (ChessMove::from_str(&t).is_ok(), Square::from_str(&t).is_ok(), Square::from_string(t.clone()).is_some())), Ok((false, false, false)));
        if !quiet {
            parsed += 1;
            check_text(ctx, &t)?;
        }
        i += shards as u64;
    }
    ctx.evals_add(total / shards as u64);
    ctx.count("short_strings_enumerated", total / shards as u64);
    ctx.count("short_strings_accepted_as_move_or_square", parsed);
    Ok(())
}

/// Mutations of a valid rendering: truncation at every offset, insertion of an arbitrary
/// character (often multi-byte) at every offset, duplication, suffixes.
#[derive(Clone, Debug)]
pub struct Mutation {
    pub index: u16,
    pub op: u8,
    pub at: u8,
    pub ch: char,
}
pub fn mutate(m: &Mutation) -> String {
    let base = expected_mv({
        let i = m.index as usize % 20480;
        let promo = [None, Some(Kind::Q), Some(Kind::R), Some(Kind::B), Some(Kind::N)][i % 5];
        Mv::new(((i / 5) / 64) as u8, ((i / 5) % 64) as u8, promo)
    });
    let chars: Vec<char> = base.chars().collect();
    let at = (m.at as usize) % (chars.len() + 1);
    match m.op % 6 {
        0 => chars[..at].iter().collect(),
        1 => {
            let mut v = chars.clone();
            v.insert(at, m.ch);
            v.into_iter().collect()
        }
        2 => {
            let mut v = chars.clone();
            if at < v.len() {
                v[at] = m.ch;
            }
            v.into_iter().collect()
        }
        3 => format!("{}{}", base, m.ch),
        4 => format!("{}{}", base, base),
        _ => {
            let mut v = chars.clone();
            if at < v.len() {
                v.remove(at);
            }
            v.into_iter().collect()
        }
    }
}

pub fn text_strategy() -> impl Strategy<Value = String> {
    let mutation = (any::<u16>(), any::<u8>(), any::<u8>(), prop_oneof![any::<char>(), Just('é'), Just('中'), Just('\u{1F600}'), Just('q'), Just(' '), Just('\0')])
        .prop_map(|(index, op, at, ch)| mutate(&Mutation { index, op, at, ch }));
    prop_oneof![
        3 => "[a-h][1-8][a-h][1-8][qrbnkQ ]?.{0,3}",
        // two squares followed by the characters that chess notations put after a move
        3 => "[a-h][1-8][a-h][1-8][qrbnkpQRBNKP=+#x_.:!?/ 0189-]{1,4}",
        1 => "[a-hA-H][0-9][a-hA-H][0-9][qrbnQRBN]?",
        1 => "[ \\t]?[a-h][1-8][ -]?[a-h][1-8][ =]?[qrbn]?[ \\n]?",
        2 => "\\PC{0,12}",
        4 => mutation,
        2 => "[a-h1-8qrbnx é中 ]{0,7}",
        1 => ".{0,6}",
    ]
}

pub fn run(cfg: &Cfg) -> i32 {
    let report = engine::run_shards(cfg, |shard, ctx, seedf| {
        // complete enumeration of move values and squares, split over shards
        for i in 0..20480usize {
            if i % cfg.shards != shard {
                continue;
            }
            let promo = [None, Some(Kind::Q), Some(Kind::R), Some(Kind::B), Some(Kind::N)][i % 5];
            let m = Mv::new(((i / 5) / 64) as u8, ((i / 5) % 64) as u8, promo);
            engine::run_one(ctx, |ctx| check_move_value(ctx, m))?;
        }
        for s in 0..64u8 {
            if s as usize % cfg.shards == shard {
                engine::run_one(ctx, |ctx| check_square_value(ctx, s))?;
            }
        }
        // texts other software writes in the place of a move, alone and wrapped
        if shard == 0 {
            for tok in TOKENS {
                for t in [tok.to_string(), format!(" {}", tok), format!("{} ", tok), format!("{}\n", tok), format!("e2e4{}", tok), format!("{}e2e4", tok)] {
                    engine::run_one(ctx, |ctx| check_text(ctx, &t))?;
                }
            }
            ctx.class("text:notation-tokens");
        }
        // complete enumeration of the short strings: lengths 0-4 over 45 characters, length 5 over 25
        for len in 0..=4usize {
            engine::run_one(ctx, |ctx| check_short_strings(ctx, SHORT_A, len, shard, cfg.shards))?;
        }
        engine::run_one(ctx, |ctx| check_short_strings(ctx, SHORT_B, 5, shard, cfg.shards))?;
        ctx.class("text:all-short-strings");
        let strat = text_strategy();
        engine::pbt(ctx, seedf(1), cfg.per_shard(16_000_000, 200_000_000), &strat, |ctx, t: &String| check_text(ctx, t))?;
        Ok(())
    });
    engine::finish(
        report,
        EvidenceSpec {
            rule: "cases = all 20480 move values and 64 squares (render compared with independently computed text, parsed back), the texts other chess software writes where a move is expected (null-move, castling, result and placeholder notations, alone and wrapped), every string of 0-4 characters over a 45-character alphabet (files, digits, piece letters in both cases, notation punctuation, one two-byte letter: 4.2 M strings) and of 5 characters over a 25-character one (9.8 M), then generated strings: regex-shaped near-moves (also two squares followed by 1-4 characters that notations put after a move: promotion letters in either case, = + # x, digits, punctuation; upper-case files; embedded spaces), arbitrary printable Unicode, valid renderings mutated (truncated at every offset, a character - often multi-byte - inserted / substituted / appended at every offset, doubled, one character removed), short strings over a move-like alphabet. For every string ChessMove/Square/File/Rank::from_str must not panic and a successful move or square parse must render to a prefix of the input. evaluations = values + strings. Non-trivial = move value with a promotion, or a string that is non-ASCII or not 4/5 bytes long; distinct = fingerprints of values / strings.".into(),
            assumptions: vec!["none beyond the Rust standard library's string handling".into()],
            trusted_base: vec!["proptest 1.11 (regex string strategies)".into()],
            exhaustive: None,
            extra: json!({"exhaustive_subdomain": "round trip of all 64*64*5 move values and 64 squares is complete; all strings of <= 4 characters over the 45-character alphabet and of 5 over the 25-character one are enumerated; longer strings are sampled"}),
        },
    )
}

pub fn replay(ctx: &mut Ctx, case: &Value) -> Result<(), Violation> {
    if let Some(t) = case.get("text").and_then(|t| t.as_str()) {
        return check_text(ctx, t);
    }
    if let Some(s) = case.get("square").and_then(|s| s.as_u64()) {
        return check_square_value(ctx, s as u8);
    }
    if let Some(m) = case.get("move") {
        let promo = match m["promotion"].as_str() {
            Some("Q") => Some(Kind::Q),
            Some("R") => Some(Kind::R),
            Some("B") => Some(Kind::B),
            Some("N") => Some(Kind::N),
            _ => None,
        };
        return check_move_value(ctx, Mv::new(m["from"].as_u64().unwrap_or(0) as u8, m["to"].as_u64().unwrap_or(0) as u8, promo));
    }
    Err(ctx.violation("INFRA", "unrecognised C13 case".into(), Value::Null))
}
