//! C06 — FEN output is standard and round-trips; standard FEN input is understood; the
//! unvalidated builder renders and re-parses the same way.

use super::common;
use crate::bridge::{self, observe};
use crate::engine::{self, fp, Cfg, Ctx, EvidenceSpec, Violation};
use crate::gen::{Step, Tape};
use crate::refmodel::*;
use chess::{Board, BoardBuilder, Color, File};
use proptest::prelude::*;
use serde_json::{json, Value};
use std::str::FromStr;

fn builder_fields_vs_pos(bb: &BoardBuilder, p: &Pos, lib_ep_file: Option<i8>) -> Option<String> {
    for s in 0..64u8 {
        let got = bb[bridge::sq(s)].map(|(pc, c)| (bridge::rcol(c), bridge::rkind(pc)));
        if got != p.at(s) {
            return Some(format!("builder square {}: {:?} vs {:?}", sq_name(s), got, p.at(s)));
        }
    }
    if bridge::rcol(bb.get_side_to_move()) != p.stm {
        return Some("builder side to move".into());
    }
    let w = bb.get_castle_rights(Color::White);
    let k = bb.get_castle_rights(Color::Black);
    if [w.has_kingside(), w.has_queenside(), k.has_kingside(), k.has_queenside()] != p.castle {
        return Some("builder castle rights".into());
    }
    let ep = bb.get_en_passant().map(|s| file_of(bridge::rsq(s)));
    if ep != lib_ep_file {
        return Some(format!("builder en passant file {:?} vs {:?}", ep, lib_ep_file));
    }
    None
}

pub fn check_step(ctx: &mut Ctx, s: &Step) -> Result<(), Violation> {
    let p = s.pos;
    let b = s.board;
    ctx.eval();
    let text = format!("{}", b);
    let case = || s.case_with(json!({"library_fen": format!("{}", s.board)}));
    let partial = p.castle.iter().any(|x| *x) && !p.castle.iter().all(|x| *x);
    if p.ep.is_some() || partial || p.stm == Col::B {
        ctx.nontrivial(fp(p));
    }
    if p.ep.is_some() {
        ctx.class("pos:after-double-push");
    }
    if partial {
        ctx.class("pos:partial-castling-rights");
    }
    let fields: Vec<&str> = text.split(' ').collect();
    if fields.len() != 6 {
        return ctx.fail("fen:field-count", format!("{:?} has {} fields", text, fields.len()), case());
    }
    // placement: well-formed and equal to the reference writer's
    let ranks: Vec<&str> = fields[0].split('/').collect();
    let mut well = ranks.len() == 8;
    for r in &ranks {
        let mut n = 0;
        let mut last_digit = false;
        for ch in r.chars() {
            if let Some(d) = ch.to_digit(10) {
                if last_digit || d == 0 || d > 8 {
                    well = false;
                }
                n += d;
                last_digit = true;
            } else {
                if !"pnbrqkPNBRQK".contains(ch) {
                    well = false;
                }
                n += 1;
                last_digit = false;
            }
        }
        if n != 8 {
            well = false;
        }
    }
    if !well {
        ctx.fail("fen:placement-malformed", format!("placement field {:?} is not well-formed", fields[0]), case())?;
    }
    if fields[0] != p.placement_fen() {
        ctx.fail("fen:placement", format!("placement field {:?}, position is {:?}", fields[0], p.placement_fen()), case())?;
    }
    let want_side = if p.stm == Col::W { "w" } else { "b" };
    if fields[1] != want_side {
        ctx.fail("fen:side", format!("side field {:?}, expected {:?}", fields[1], want_side), case())?;
    }
    if fields[2] != p.castle_fen() {
        ctx.fail("fen:castling", format!("castling field {:?}, expected {:?}", fields[2], p.castle_fen()), case())?;
    }
    // en-passant field
    let epf = fields[3];
    match p.ep {
        None => {
            if epf != "-" {
                ctx.fail("fen:ep-without-double-push", format!("en-passant field {:?} although the last move was not a double push", epf), case())?;
            }
        }
        Some(t) => {
            if epf != "-" {
                ctx.class("fen:ep-field-present");
                if epf != sq_name(t) {
                    ctx.fail("fen:ep-square", format!("en-passant field {:?}, the passed-over square is {:?}", epf, sq_name(t)), case())?;
                }
            }
            if epf == "-" && p.legal_ep_exists() {
                ctx.fail("fen:ep-missing", "en-passant field is '-' although a legal en-passant capture exists".into(), case())?;
            }
        }
    }
    match (fields[4].parse::<u32>(), fields[5].parse::<u32>()) {
        (Ok(_), Ok(f)) if f >= 1 => {}
        _ => ctx.fail("fen:clocks", format!("clock fields {:?} {:?}", fields[4], fields[5]), case())?,
    }
    // round trip through the validated parser
    match Board::from_str(&text) {
        Ok(r) => {
            if r != *b {
                let d = bridge::obs_diff(&observe(&r), &observe(b)).unwrap_or_default();
                ctx.fail("fen:roundtrip", format!("Board::from_str(to_string(b)) != b: {}", d), case())?;
            }
        }
        Err(e) => ctx.fail("fen:own-output-rejected", format!("own FEN {:?} rejected: {:?}", text, e), case())?,
    }
    // the independent standard writer's FEN (en-passant square after every double push, clocks vary)
    let h = fp(p);
    let (half, full) = Pos::clocks_for(h);
    let std_fen = p.fen_with_clocks(half, full);
    match Board::from_str(&std_fen) {
        Ok(r) => {
            if r != *b {
                let d = bridge::obs_diff(&observe(&r), &observe(b)).unwrap_or_default();
                ctx.fail("fen:standard-input", format!("Board::from_str({:?}) != the position: {}", std_fen, d), case())?;
            }
        }
        Err(e) => ctx.fail("fen:standard-input-rejected", format!("standard FEN {:?} rejected: {:?}", std_fen, e), case())?,
    }
    // four-field form (clocks omitted) is also common input
    let four: String = std_fen.split(' ').take(4).collect::<Vec<_>>().join(" ");
    if let Ok(r) = Board::from_str(&four) {
        if r != *b {
            ctx.fail("fen:standard-input", format!("Board::from_str({:?}) != the position", four), case())?;
        }
    }
    // builder paths
    let lib_ep_file = observe(b).ep.map(file_of);
    let bb: BoardBuilder = if fp(p) % 2 == 0 { b.into() } else { (*b).into() };
    let btext = format!("{}", bb);
    if btext != text {
        ctx.fail("fen:builder-render", format!("BoardBuilder::from(&board) renders {:?}, board renders {:?}", btext, text), case())?;
    }
    if let Some(d) = builder_fields_vs_pos(&bb, p, lib_ep_file) {
        ctx.fail("fen:builder-fields", format!("BoardBuilder::from(&board): {}", d), case())?;
    }
    match BoardBuilder::from_str(&text) {
        Ok(pb) => {
            let again = format!("{}", pb);
            if again != text {
                ctx.fail("fen:builder-reparse", format!("BoardBuilder::from_str({:?}) re-renders as {:?}", text, again), case())?;
            }
            if let Some(d) = builder_fields_vs_pos(&pb, p, lib_ep_file) {
                ctx.fail("fen:builder-fields", format!("BoardBuilder::from_str(own FEN): {}", d), case())?;
            }
        }
        Err(e) => ctx.fail("fen:own-output-rejected", format!("BoardBuilder::from_str({:?}): {:?}", text, e), case())?,
    }
    ctx.sample(|| s.case_with(json!({"library_fen": text})));
    Ok(())
}

// ---------------------------------------------------------------- unvalidated builder states

#[derive(Clone, Debug)]
pub struct BuilderState {
    pub squares: Vec<Option<(Col, Kind)>>,
    pub stm: Col,
    pub castle: [bool; 4],
    pub ep_file: Option<u8>,
}
impl BuilderState {
    pub fn to_json(&self) -> Value {
        let mut p = Pos::empty();
        for (i, s) in self.squares.iter().enumerate() {
            p.board[i] = *s;
        }
        json!({"placement": p.placement_fen(), "side": format!("{:?}", self.stm), "castle": self.castle, "ep_file": self.ep_file})
    }
    pub fn from_json(v: &Value) -> Option<BuilderState> {
        let pl = v.get("placement")?.as_str()?;
        let p = Pos::from_fen(&format!("{} w - - 0 1", pl)).ok()?;
        let stm = if v.get("side")?.as_str()? == "W" { Col::W } else { Col::B };
        let c = v.get("castle")?.as_array()?;
        let mut castle = [false; 4];
        for i in 0..4 {
            castle[i] = c.get(i)?.as_bool()?;
        }
        let ep_file = v.get("ep_file").and_then(|e| e.as_u64()).map(|e| e as u8);
        Some(BuilderState { squares: p.board.to_vec(), stm, castle, ep_file })
    }
    pub fn build(&self) -> BoardBuilder {
        bridge::fill_builder(&self.squares, self.stm, self.castle, self.ep_file, fp(&format!("{:?}", self)) >> 9)
    }
}

/// Arbitrary builder state from a tape: any piece on any square, sparse to completely full.
pub fn builder_state(t: &mut Tape) -> BuilderState {
    let density = match t.below(6) {
        0 => 2,
        1 => 8,
        2 => 20,
        3 => 32,
        4 => 48,
        _ => 64,
    };
    let mut squares = vec![None; 64];
    let kings_first = t.chance(3, 4);
    if kings_first {
        squares[t.below(64)] = Some((Col::W, Kind::K));
        let s = t.below(64);
        if squares[s].is_none() {
            squares[s] = Some((Col::B, Kind::K));
        }
    }
    let allow_extra_kings = t.chance(1, 8);
    for _ in 0..density {
        let s = t.below(64);
        let c = if t.chance(1, 2) { Col::W } else { Col::B };
        let k = KINDS[t.below(if allow_extra_kings { 6 } else { 5 })];
        if squares[s].is_none() || t.chance(1, 4) {
            if !kings_first || !matches!(squares[s], Some((_, Kind::K))) {
                squares[s] = Some((c, k));
            }
        }
    }
    let stm = if t.chance(1, 2) { Col::W } else { Col::B };
    let castle = [t.chance(1, 3), t.chance(1, 3), t.chance(1, 3), t.chance(1, 3)];
    let ep_file = if t.chance(1, 3) { Some(t.below(8) as u8) } else { None };
    BuilderState { squares, stm, castle, ep_file }
}

pub fn check_builder_state(ctx: &mut Ctx, st: &BuilderState) -> Result<(), Violation> {
    ctx.eval();
    ctx.class("builder:unvalidated-state");
    let case = || json!({"builder": st.to_json()});
    ctx.set_case(case());
    let bb = st.build();
    let text = format!("{}", bb);
    if st.ep_file.is_some() || st.stm == Col::B {
        ctx.nontrivial(fp(&text));
    }
    let fields: Vec<&str> = text.split(' ').collect();
    if fields.len() != 6 {
        return ctx.fail("fen:field-count", format!("builder renders {:?}", text), case());
    }
    let mut p = Pos::empty();
    for (i, s) in st.squares.iter().enumerate() {
        p.board[i] = *s;
    }
    p.stm = st.stm;
    p.castle = st.castle;
    if fields[0] != p.placement_fen() || fields[2] != p.castle_fen() || fields[1] != (if st.stm == Col::W { "w" } else { "b" }) {
        ctx.fail("fen:builder-render", format!("builder renders {:?}, expected placement {:?} castling {:?}", text, p.placement_fen(), p.castle_fen()), case())?;
    }
    // en-passant field: the square behind a pawn that would have double-pushed on that file
    let want_ep = match st.ep_file {
        None => "-".to_string(),
        Some(f) => sq_name(mk(f as i8, if st.stm == Col::W { 5 } else { 2 }).unwrap()),
    };
    if fields[3] != want_ep {
        ctx.fail("fen:ep-square", format!("builder with en-passant file {:?} and {:?} to move renders field {:?}, standard is {:?}", st.ep_file, st.stm, fields[3], want_ep), case())?;
    }
    match BoardBuilder::from_str(&text) {
        Ok(pb) => {
            let again = format!("{}", pb);
            if again != text {
                ctx.fail("fen:builder-reparse", format!("{:?} re-renders as {:?}", text, again), case())?;
            }
            if let Some(d) = builder_fields_vs_pos(&pb, &p, st.ep_file.map(|f| f as i8)) {
                ctx.fail("fen:builder-fields", format!("re-parsed builder: {}", d), case())?;
            }
        }
        Err(e) => ctx.fail("fen:own-output-rejected", format!("BoardBuilder::from_str({:?}): {:?}", text, e), case())?,
    }
    ctx.sample(|| json!({"builder": st.to_json(), "rendered": text}));
    Ok(())
}

pub fn run(cfg: &Cfg) -> i32 {
    let report = engine::run_shards(cfg, |shard, ctx, seedf| {
        common::golden(cfg, shard, ctx, &check_step)?;
        if shard == 0 {
            // the two `Default` values are the initial position
            engine::run_one(ctx, |ctx| {
                ctx.eval();
                let start = Pos::startpos().fen();
                let case = || serde_json::json!({"start": start, "moves": []});
                ctx.set_case(case());
                let r = crate::engine::guarded(|| (BoardBuilder::default().to_string(), chess::Board::default().to_string(), chess::Board::default() == chess::Board::from_str(&start).unwrap()));
                match r {
                    Ok((bb, b, eq)) => {
                        if bb != start || b != start || !eq {
                            ctx.fail("fen:default", format!("BoardBuilder::default() renders {:?}, Board::default() renders {:?} (== parsed initial position: {}), standard text {:?}", bb, b, eq, start), case())?;
                        }
                    }
                    Err(e) => ctx.fail("fen:default", format!("Default panicked: {}", e), case())?,
                }
                Ok(())
            })?;
        }
        common::histories(ctx, seedf(1), cfg.per_shard(400_000, 6_000_000), 4, 40, None, &check_step)?;
        let strat = proptest::collection::vec(any::<u16>(), 300);
        engine::pbt(ctx, seedf(2), cfg.per_shard(2_000_000, 30_000_000), &strat, |ctx, tape: &Vec<u16>| {
            let st = builder_state(&mut Tape::new(tape));
            check_builder_state(ctx, &st)
        })?;
        Ok(())
    });
    engine::finish(
        report,
        EvidenceSpec {
            rule: "cases = positions on golden and generated histories (rendered, re-parsed, parsed from an independent standard writer's FEN with varying clocks, and passed through BoardBuilder both ways) plus arbitrary unvalidated builder states (any piece on any square, 2..64 men, any rights and en-passant file) rendered and re-parsed. evaluations = positions + builder states. Non-trivial = en-passant target present, partial castling rights or Black to move; distinct = distinct position / rendered-text fingerprints.".into(),
            assumptions: vec!["reference FEN writer/reader follow the FEN standard (PGN spec 16.1): en-passant target = passed-over square, castling letters in KQkq order".into()],
            trusted_base: vec!["harness/src/refmodel.rs".into(), "proptest 1.11".into()],
            exhaustive: None,
            extra: json!({}),
        },
    )
}

pub fn replay(ctx: &mut Ctx, case: &Value) -> Result<(), Violation> {
    if let Some(b) = case.get("builder") {
        let st = BuilderState::from_json(b).ok_or_else(|| ctx.violation("INFRA", "bad builder case".into(), Value::Null))?;
        return check_builder_state(ctx, &st);
    }
    common::replay_hist(ctx, case, &check_step)
}
