//! C12 — SAN parsing returns exactly the denoted move, and only ever legal moves.

use super::common;
use crate::bridge;
use crate::engine::{self, fp, guarded, Cfg, Ctx, EvidenceSpec, Violation};
use crate::gen::{self, MoveSource, Policy, RawHist, Step, Tape};
use crate::refmodel::*;
use chess::ChessMove;
use proptest::prelude::*;
use serde_json::{json, Value};

/// A text of the strict SAN grammar, taken apart.
#[derive(Debug, Clone, PartialEq)]
pub enum Strict {
    Castle { kingside: bool },
    Move { piece: Kind, src_file: Option<i8>, src_rank: Option<i8>, takes: bool, dest: Sq, promo: Option<Kind>, ep_suffix: bool },
}

/// ^(O-O(-O)?|[KQRBN]?[a-h]?[1-8]?x?[a-h][1-8][QRBN]?)[+#]?( e\.p\.)?$
pub fn parse_strict(t: &str) -> Option<Strict> {
    if !t.is_ascii() {
        return None;
    }
    let mut s = t;
    let mut ep_suffix = false;
    if let Some(r) = s.strip_suffix(" e.p.") {
        s = r;
        ep_suffix = true;
    }
    if let Some(r) = s.strip_suffix('+').or_else(|| s.strip_suffix('#')) {
        s = r;
    }
    if s == "O-O" || s == "O-O-O" {
        if ep_suffix {
            return None;
        }
        return Some(Strict::Castle { kingside: s == "O-O" });
    }
    let b = s.as_bytes();
    let mut end = b.len();
    let mut promo = None;
    if end >= 3 && b"QRBN".contains(&b[end - 1]) && b[end - 2].is_ascii_digit() {
        promo = Some(match b[end - 1] {
            b'Q' => Kind::Q,
            b'R' => Kind::R,
            b'B' => Kind::B,
            _ => Kind::N,
        });
        end -= 1;
    }
    if end < 2 {
        return None;
    }
    let dest = parse_sq(&s[end - 2..end])?;
    let mut i = 0;
    let rest = &b[..end - 2];
    let piece = match rest.first() {
        Some(b'K') => Kind::K,
        Some(b'Q') => Kind::Q,
        Some(b'R') => Kind::R,
        Some(b'B') => Kind::B,
        Some(b'N') => Kind::N,
        _ => Kind::P,
    };
    if piece != Kind::P {
        i += 1;
    }
    let mut src_file = None;
    let mut src_rank = None;
    if i < rest.len() && (b'a'..=b'h').contains(&rest[i]) {
        src_file = Some((rest[i] - b'a') as i8);
        i += 1;
    }
    if i < rest.len() && (b'1'..=b'8').contains(&rest[i]) {
        src_rank = Some((rest[i] - b'1') as i8);
        i += 1;
    }
    let mut takes = false;
    if i < rest.len() && rest[i] == b'x' {
        takes = true;
        i += 1;
    }
    if i != rest.len() {
        return None;
    }
    if promo.is_some() && piece != Kind::P {
        return None;
    }
    Some(Strict::Move { piece, src_file, src_rank, takes, dest, promo, ep_suffix })
}

/// Legal moves fitting the text on piece, source constraints, destination and promotion
/// (the capture marker is deliberately ignored).
pub fn fits(p: &Pos, legal: &[Mv], st: &Strict) -> Vec<Mv> {
    match st {
        Strict::Castle { kingside } => legal.iter().copied().filter(|m| p.is_castle(*m) && (file_of(m.to) == 6) == *kingside).collect(),
        Strict::Move { piece, src_file, src_rank, dest, promo, .. } => legal
            .iter()
            .copied()
            .filter(|m| {
                // castling written as a king move ("Kg1") is tolerated input: the statement does
                // not require its rejection, so the castling move counts as fitting a K text
                matches!(p.at(m.from), Some((_, k)) if k == *piece)
                    && m.to == *dest
                    && m.promo == *promo
                    && src_file.map_or(true, |f| file_of(m.from) == f)
                    && src_rank.map_or(true, |r| rank_of(m.from) == r)
            })
            .collect(),
    }
}

fn san(b: &chess::Board, t: &str) -> Result<Result<ChessMove, ()>, String> {
    guarded(|| ChessMove::from_san(b, t).map_err(|_| ()))
}

/// The universal oracle, valid for any text whatsoever.
pub fn check_any_text(ctx: &mut Ctx, s: &Step, t: &str) -> Result<(), Violation> {
    ctx.eval();
    let case = || s.case_with(json!({"text": t}));
    ctx.set_case(case());
    let r = match san(s.board, t) {
        Ok(r) => r,
        Err(e) => return ctx.fail("san:panic", format!("from_san({:?}) panicked: {}", t, e), case()),
    };
    let strict = parse_strict(t);
    let matches = strict.as_ref().map(|st| fits(s.pos, s.legal, st));
    match r {
        Ok(m) => {
            let m = bridge::rmv(m);
            if !s.legal.contains(&m) {
                ctx.fail("san:returns-illegal-move", format!("from_san({:?}) = {} which is not legal", t, m.uci()), case())?;
            }
            if let Some(ms) = &matches {
                if !ms.contains(&m) {
                    ctx.fail("san:returns-wrong-move", format!("from_san({:?}) = {} which does not fit the text (fitting moves: {:?})", t, m.uci(), ms.iter().map(|x| x.uci()).collect::<Vec<_>>()), case())?;
                }
                if ms.len() >= 2 {
                    ctx.fail("san:accepts-ambiguous", format!("from_san({:?}) = {} although {} legal moves fit", t, m.uci(), ms.len()), case())?;
                }
            }
            ctx.class("text:accepted");
        }
        Err(()) => {
            ctx.class("text:rejected");
        }
    }
    if let Some(ms) = &matches {
        if ms.len() >= 2 {
            ctx.class("text:strict-ambiguous");
            ctx.nontrivial(fp(&(s.pos, t)));
        } else if ms.is_empty() {
            ctx.class("text:strict-no-match");
        }
    }
    Ok(())
}

/// Every admissible spelling of every legal move must parse back to that move; under-specified
/// spellings of moves with rivals must be rejected.
pub fn check_step(ctx: &mut Ctx, s: &Step) -> Result<(), Violation> {
    let p = s.pos;
    for &m in s.legal {
        let cores = p.san_cores(m, s.legal);
        let suffix = p.check_suffix(m);
        let is_ep = p.is_ep_capture(m);
        let castle = p.is_castle(m);
        let mut spellings: Vec<String> = vec![];
        for c in &cores {
            spellings.push(c.clone());
            if !suffix.is_empty() {
                spellings.push(format!("{}{}", c, suffix));
            }
            if is_ep {
                spellings.push(format!("{} e.p.", c));
                if !suffix.is_empty() {
                    spellings.push(format!("{}{} e.p.", c, suffix));
                }
            }
        }
        let nontrivial = (cores.len() > 1 && !matches!(p.at(m.from), Some((_, Kind::P)))) || m.promo.is_some() || is_ep || (castle && !suffix.is_empty());
        if is_ep {
            ctx.class("spelling:en-passant");
        }
        if m.promo.is_some() {
            ctx.class("spelling:promotion");
        }
        if castle {
            ctx.class(if suffix.is_empty() { "spelling:castling" } else { "spelling:castling-with-check" });
        }
        if !suffix.is_empty() {
            ctx.class(if suffix == "#" { "spelling:mate-suffix" } else { "spelling:check-suffix" });
        }
        for t in &spellings {
            ctx.eval();
            if nontrivial {
                ctx.nontrivial(fp(&(p, t)));
            }
            let case = || s.case_with(json!({"text": t, "move": m.uci()}));
            ctx.set_case(case());
            match san(s.board, t) {
                Err(e) => ctx.fail("san:panic", format!("from_san({:?}) panicked: {}", t, e), case())?,
                Ok(Ok(got)) => {
                    if bridge::rmv(got) != m {
                        ctx.fail("san:wrong-move", format!("from_san({:?}) = {} but it denotes {}", t, got, m.uci()), case())?;
                    }
                }
                Ok(Err(())) => {
                    let sig = if castle {
                        "san:rejects-castling-spelling"
                    } else if is_ep {
                        "san:rejects-en-passant-spelling"
                    } else if m.promo.is_some() {
                        "san:rejects-promotion-spelling"
                    } else {
                        "san:rejects-admissible-spelling"
                    };
                    ctx.fail(sig, format!("from_san({:?}) is rejected although it is an admissible spelling of the legal move {}", t, m.uci()), case())?;
                }
            }
        }
        // under-specified forms: piece letter + [x] + destination with fewer source hints
        if let Some((_, k)) = p.at(m.from) {
            if k != Kind::P && !castle {
                let cap = if p.is_capture(m) { "x" } else { "" };
                let f = (b'a' + (m.from & 7)) as char;
                let r = (b'1' + (m.from >> 3)) as char;
                for d in [String::new(), f.to_string(), r.to_string()] {
                    let t = format!("{}{}{}{}", kind_letter_upper(k), d, cap, sq_name(m.to));
                    if !cores.contains(&t) {
                        ctx.class("spelling:under-specified(ambiguous)");
                        check_any_text(ctx, s, &t)?;
                        // must be rejected: it fits >= 2 legal moves
                        if let Ok(Ok(got)) = san(s.board, &t) {
                            ctx.fail("san:accepts-ambiguous", format!("from_san({:?}) = {} although it fits more than one legal move", t, got), s.case_with(json!({"text": t})))?;
                        }
                    }
                }
            }
        }
        // non-canonical pawn spellings and wrong capture markers: universal oracle only
        if let Some((_, Kind::P)) = p.at(m.from) {
            let long = format!("{}{}{}{}", sq_name(m.from), if p.is_capture(m) { "x" } else { "" }, sq_name(m.to), m.promo.map(|k| kind_letter_upper(k).to_string()).unwrap_or_default());
            check_any_text(ctx, s, &long)?;
        }
    }
    ctx.sample(|| s.case_with(json!({"legal_moves_in_san": s.legal.iter().take(8).map(|m| s.pos.san(*m)).collect::<Vec<_>>() })));
    Ok(())
}

/// Negative strict-grammar texts built from the position: piece/destination pairs that no legal
/// move reaches, wrong promotion letters, wrong source hints.
pub fn negatives(ctx: &mut Ctx, s: &Step, t: &mut Tape) -> Result<(), Violation> {
    for _ in 0..6 {
        let k = [Kind::K, Kind::Q, Kind::R, Kind::B, Kind::N, Kind::P][t.below(6)];
        let dest = t.below(64) as u8;
        let mut text = String::new();
        if k != Kind::P {
            text.push(kind_letter_upper(k));
        }
        match t.below(4) {
            0 => text.push((b'a' + t.below(8) as u8) as char),
            1 => text.push((b'1' + t.below(8) as u8) as char),
            _ => {}
        }
        if t.chance(1, 4) {
            if k == Kind::P && text.is_empty() {
                text.push((b'a' + t.below(8) as u8) as char);
            }
            text.push('x');
        }
        text.push_str(&sq_name(dest));
        if k == Kind::P && t.chance(1, 3) {
            text.push(['Q', 'R', 'B', 'N'][t.below(4)]);
        }
        match t.below(6) {
            0 => text.push('+'),
            1 => text.push('#'),
            _ => {}
        }
        check_any_text(ctx, s, &text)?;
        if let Some(st) = parse_strict(&text) {
            let ms = fits(s.pos, s.legal, &st);
            if ms.len() != 1 {
                if let Ok(Ok(got)) = san(s.board, &text) {
                    ctx.fail(
                        if ms.is_empty() { "san:accepts-text-denoting-no-move" } else { "san:accepts-ambiguous" },
                        format!("from_san({:?}) = {} although {} legal moves fit the text", text, got, ms.len()),
                        s.case_with(json!({"text": text})),
                    )?;
                }
            }
        }
    }
    Ok(())
}

const SAN_ALPHABET: &[char] = &['K', 'Q', 'R', 'B', 'N', 'a', 'b', 'c', 'd', 'e', 'f', 'g', 'h', '1', '2', '3', '4', '5', '6', '7', '8', 'x', 'O', '-', '+', '#', '=', ' ', 'e', '.', 'p', '0', 'é', '中', '\u{1F600}', '!', '?'];

fn mutate(text: &str, t: &mut Tape) -> String {
    let mut cs: Vec<char> = text.chars().collect();
    for _ in 0..(1 + t.below(2)) {
        match t.below(4) {
            0 => {
                if !cs.is_empty() {
                    let i = t.below(cs.len());
                    cs[i] = SAN_ALPHABET[t.below(SAN_ALPHABET.len())];
                }
            }
            1 => {
                let i = t.below(cs.len() + 1);
                cs.insert(i, SAN_ALPHABET[t.below(SAN_ALPHABET.len())]);
            }
            2 => {
                if !cs.is_empty() {
                    let i = t.below(cs.len());
                    cs.remove(i);
                }
            }
            _ => {
                let i = t.below(cs.len() + 1);
                cs.truncate(i);
            }
        }
    }
    cs.into_iter().collect()
}

#[derive(Clone, Debug)]
pub struct Case {
    hist: RawHist,
    garbage: Vec<String>,
    tape: Vec<u16>,
}

pub fn garbage_strategy() -> impl Strategy<Value = String> {
    prop_oneof![
        4 => "[KQRBNa-h1-8xO\\-+#=e.p ]{0,12}",
        3 => "[KQRBN]?[a-h]?[1-8]?x?[a-h][1-8][QRBN]?[+#]?( e\\.p\\.)?",
        1 => "O-O(-O)?[+#!?]{0,2}",
        1 => "\\PC{0,16}",
        1 => ".{0,8}",
    ]
}

pub fn run(cfg: &Cfg) -> i32 {
    let report = engine::run_shards(cfg, |shard, ctx, seedf| {
        common::golden(cfg, shard, ctx, &check_step)?;
        let strat = (gen::raw_hist_strategy(4, 36), proptest::collection::vec(garbage_strategy(), 6), proptest::collection::vec(any::<u16>(), 2000))
            .prop_map(|(hist, garbage, tape)| Case { hist, garbage, tape });
        let pol = [Policy::Special, Policy::Uniform, Policy::Endgame, Policy::Special];
        engine::pbt(ctx, seedf(1), cfg.per_shard(32_000, 600_000), &strat, |ctx, c: &Case| {
            let (_, start) = match gen::start_of(&c.hist) {
                Some(x) => x,
                None => {
                    ctx.reject();
                    return Ok(());
                }
            };
            let policy = pol[c.hist.policy as usize % pol.len()];
            let mut src = MoveSource::Tape { policy, tape: Tape::new(&c.hist.choices) };
            let tape = std::cell::RefCell::new(Tape::new(&c.tape));
            let visit = |ctx: &mut Ctx, s: &Step| -> Result<(), Violation> {
                check_step(ctx, s)?;
                // one position in eight: the positions with the same men on the same squares (other
                // side to move, rights dropped, en-passant state dropped) are asked in turn with it
                common::with_siblings(ctx, s, 8, &check_step)?;
                for g in &c.garbage {
                    ctx.class("text:generated-garbage");
                    check_any_text(ctx, s, g)?;
                }
                let mut t = tape.borrow_mut();
                negatives(ctx, s, &mut t)?;
                // mutated admissible spellings
                if !s.legal.is_empty() {
                    for _ in 0..4 {
                        let m = s.legal[t.below(s.legal.len())];
                        let base = format!("{}{}", s.pos.san_cores(m, s.legal)[0], s.pos.check_suffix(m));
                        let mt = mutate(&base, &mut t);
                        ctx.class("text:mutated-spelling");
                        check_any_text(ctx, s, &mt)?;
                    }
                }
                Ok(())
            };
            gen::walk(ctx, &start, &mut src, 36, &visit).map(|_| ())
        })?;
        Ok(())
    });
    engine::finish(
        report,
        EvidenceSpec {
            rule: "cases = (position, text) pairs. For every legal move of every position on golden and generated histories the reference SAN writer emits all admissible spellings (castling; piece letter with the minimal and every fuller correct disambiguation; pawn moves in canonical form and with the full source square (e4 / e2e4, exd5 / e4xd5); 'x' iff capture incl. en passant; promotion letter; each with and without the correct '+'/'#'; en passant additionally with ' e.p.') which must parse to exactly that move; under-specified spellings of moves with rivals, strict-grammar negatives (no or several fitting moves), long-form pawn spellings, mutated spellings, regex-shaped and arbitrary Unicode strings are checked with the universal oracle; one position in eight is asked in turn with the positions that have the same men on the same squares (other side to move, castling rights dropped, en-passant state dropped), since the answer must not depend on what was asked before (no panic; a returned move is legal and fits the text; ambiguous and non-denoting strict texts are rejected). evaluations = texts parsed. Non-trivial = spelling with disambiguation, promotion, en passant or castling with check, or a strict text fitting >= 2 moves; distinct = (position, text) fingerprints.".into(),
            assumptions: vec!["reference SAN writer / strict grammar as in FIDE Appendix C and the library's own documentation comment".into()],
            trusted_base: vec!["harness/src/refmodel.rs".into(), "harness/src/props/c12.rs parse_strict/fits".into(), "proptest 1.11".into()],
            exhaustive: None,
            extra: json!({"not_asserted": "rejection of lenient inputs (castling written as a king move such as Kg1, trailing annotation, 'x' on a non-capture, capture written without 'x', wrong check suffix)"}),
        },
    )
}

pub fn replay(ctx: &mut Ctx, case: &Value) -> Result<(), Violation> {
    if let Some(list) = case.get("asked_in_turn").and_then(|x| x.as_array()) {
        let seq: Vec<Pos> = list.iter().filter_map(|f| f.as_str().and_then(|t| Pos::from_fen(t).ok())).collect();
        return common::in_turn(ctx, &seq, &check_step);
    }
    let text = case.get("text").and_then(|t| t.as_str()).map(|s| s.to_string());
    let (_, moves) = gen::parse_hist_case(case).map_err(|e| ctx.violation("INFRA", e, Value::Null))?;
    let n = moves.len();
    let visit = |ctx: &mut Ctx, s: &Step| -> Result<(), Violation> {
        if s.moves.len() != n {
            return Ok(());
        }
        check_step(ctx, s)?;
        if let Some(t) = &text {
            check_any_text(ctx, s, t)?;
            if let Some(st) = parse_strict(t) {
                let ms = fits(s.pos, s.legal, &st);
                if ms.len() != 1 {
                    if let Ok(Ok(got)) = san(s.board, t) {
                        return ctx.fail("san:accepts-ambiguous", format!("from_san({:?}) = {} although {} legal moves fit", t, got, ms.len()), s.case_with(json!({"text": t})));
                    }
                }
            }
        }
        Ok(())
    };
    common::replay_hist(ctx, case, &visit)
}
