//! C05 — legal play stays within valid positions; rights and material only shrink.
//! Histories are driven by the *library's* generated moves (the statement quantifies over
//! "any sequence of generated moves"); the reference model is used only to decide whether the
//! side that just moved is left in check.

use crate::bridge::{self, observe, Obs};
use crate::engine::{self, fp, Cfg, Ctx, EvidenceSpec, Violation};
use crate::gen::{self, RawHist, Tape};
use crate::refmodel::*;
use chess::{BitBoard, Board, MoveGen, EMPTY};
use serde_json::{json, Value};

fn pos_of_obs(o: &Obs) -> Pos {
    let mut p = Pos::empty();
    p.board = o.placement;
    p.stm = o.stm;
    p.castle = o.castle;
    p
}

fn count(o: &Obs, c: Col, k: Option<Kind>) -> usize {
    o.placement.iter().filter(|x| matches!(x, Some((cc, kk)) if *cc == c && k.map_or(true, |k| k == *kk))).count()
}

/// Invariants of a single position (from the library's own observables).
fn check_node(ctx: &mut Ctx, b: &Board, o: &Obs, case: &dyn Fn() -> Value) -> Result<(), Violation> {
    for c in [Col::W, Col::B] {
        let k = count(o, c, Some(Kind::K));
        if k != 1 {
            ctx.fail("valid:king-count", format!("{:?} has {} kings", c, k), case())?;
        }
    }
    for s in (0..8usize).chain(56..64) {
        if matches!(o.placement[s], Some((_, Kind::P))) {
            ctx.fail("valid:pawn-on-back-rank", format!("pawn on {}", sq_name(s as u8)), case())?;
        }
    }
    let p = pos_of_obs(o);
    if p.in_check(p.stm.other()) {
        ctx.fail("valid:mover-left-in-check", format!("{:?} has just moved and its king is attacked", p.stm.other()), case())?;
    }
    if !b.is_sane() {
        ctx.fail("valid:is_sane", "is_sane() rejects a position reached by generated moves".into(), case())?;
    }
    Ok(())
}

/// Monotonicity between a position and its successor.
fn check_edge(ctx: &mut Ctx, a: &Obs, b: &Obs, case: &dyn Fn() -> Value) -> Result<(), Violation> {
    for i in 0..4 {
        if b.castle[i] && !a.castle[i] {
            ctx.fail("history:castle-right-regained", format!("castling right #{} came back", i), case())?;
        }
    }
    for c in [Col::W, Col::B] {
        if count(b, c, None) > count(a, c, None) {
            ctx.fail("history:men-grew", format!("{:?} men {} -> {}", c, count(a, c, None), count(b, c, None)), case())?;
        }
        if count(b, c, Some(Kind::P)) > count(a, c, Some(Kind::P)) {
            ctx.fail("history:pawns-grew", format!("{:?} pawns grew", c), case())?;
        }
    }
    Ok(())
}

/// The moves the library generates for `b`, obtained through one of the ways a program obtains
/// them (`sel` picks): one pass; captures first and then the rest (the documented staged idiom);
/// three stages with a generated middle mask; the four board quarters in a rotated order and then
/// everything; `Board::enumerate_moves`. Every mask is iterated to exhaustion. Duplicates are
/// folded (exactly-once is C14's business): this is the set of moves play may continue with.
fn sorted_lib_moves(b: &Board, sel: u64) -> Vec<Mv> {
    let mut v: Vec<Mv> = vec![];
    match sel % 8 {
        0 | 1 | 2 => v.extend(MoveGen::new_legal(b).map(bridge::rmv)),
        3 | 4 => {
            let mut g = MoveGen::new_legal(b);
            g.set_iterator_mask(*b.color_combined(!b.side_to_move()));
            v.extend((&mut g).map(bridge::rmv));
            g.set_iterator_mask(!EMPTY);
            v.extend(g.map(bridge::rmv));
        }
        5 => {
            let mut g = MoveGen::new_legal(b);
            g.set_iterator_mask(*b.color_combined(!b.side_to_move()));
            v.extend((&mut g).map(bridge::rmv));
            let x = sel >> 3;
            let mid = [0x0000_00FF_FF00_0000u64, 0xFF00_0000_0000_00FF, 0x3C3C_3C3C_3C3C_3C3C, 0x55AA_55AA_55AA_55AA][(x % 4) as usize];
            g.set_iterator_mask(BitBoard::new(mid));
            v.extend((&mut g).map(bridge::rmv));
            g.set_iterator_mask(!EMPTY);
            v.extend(g.map(bridge::rmv));
        }
        6 => {
            let mut g = MoveGen::new_legal(b);
            let q = [0x0000_0000_0F0F_0F0Fu64, 0x0000_0000_F0F0_F0F0, 0x0F0F_0F0F_0000_0000, 0xF0F0_F0F0_0000_0000];
            let r = (sel >> 3) as usize;
            for i in 0..4 {
                g.set_iterator_mask(BitBoard::new(q[(i + r) % 4]));
                v.extend((&mut g).map(bridge::rmv));
            }
            g.set_iterator_mask(!EMPTY);
            v.extend(g.map(bridge::rmv));
        }
        _ => {
            let mut arr = [chess::ChessMove::default(); 256];
            #[allow(deprecated)]
            let n = b.enumerate_moves(&mut arr);
            v.extend(arr[..n.min(256)].iter().map(|m| bridge::rmv(*m)));
        }
    }
    v.sort();
    v.dedup();
    v
}

struct Explicit {
    start: Pos,
    moves: Vec<Mv>,
}

/// Play `moves` (explicit) or tape-chosen library moves from `start`, checking every node.
/// The start board of a playout: loaded, or - when `origin` names a source position and a way -
/// obtained from the source position's board by a null move or the deprecated editing API
/// (`editapi::other_ways`), which is one more way of standing at a valid position.
fn start_board(start: &Pos, origin: Option<(&Pos, &str)>) -> Option<Board> {
    match origin {
        None => gen::lib_start(start),
        Some((src, how)) => {
            let b0 = gen::lib_start(src)?;
            super::editapi::other_ways(src, &b0, 3).into_iter().find(|(vp, _, h)| vp == start && h == how).map(|(_, vb, _)| vb)
        }
    }
}

fn playout(ctx: &mut Ctx, start: &Pos, origin: Option<(&Pos, &str)>, explicit: Option<&[Mv]>, tape: Option<&mut Tape>, max_plies: usize, special_bias: bool) -> Result<(), Violation> {
    ctx.set_case(json!({"start": start.fen(), "moves": []}));
    let mut board = match start_board(start, origin) {
        Some(b) => b,
        None => {
            ctx.reject();
            return Ok(());
        }
    };
    if origin.is_some() {
        ctx.class("playout:start-obtained-by-null-move-or-editing");
    }
    let mut tape = tape;
    let mut played: Vec<Mv> = vec![];
    let mut prev = observe(&board);
    let mk_case = |played: &Vec<Mv>| match origin {
        None => json!({"start": start.fen(), "moves": played.iter().map(|m| m.uci()).collect::<Vec<_>>() }),
        Some((src, how)) => json!({"start": start.fen(), "start_obtained_from": src.fen(), "through": how, "moves": played.iter().map(|m| m.uci()).collect::<Vec<_>>() }),
    };
    ctx.set_case(mk_case(&played));
    check_node(ctx, &board, &prev, &|| mk_case(&played))?;
    let (mut saw_cap, mut saw_promo, mut saw_rights) = (false, false, false);
    for ply in 0..max_plies {
        // now and then the turn is passed (a null move, written a1a1 in the move list): the passed
        // position is a valid position too, and play continues from the board null_move returned
        let null_mark = Mv::new(0, 0, None);
        let want_null = match explicit {
            Some(ms) => ms.get(ply) == Some(&null_mark),
            None => fp(&(start, ply, "pass")) % 16 == 0,
        };
        if want_null {
            match board.null_move() {
                Some(nb) => {
                    played.push(null_mark);
                    ctx.set_case(mk_case(&played));
                    let o = observe(&nb);
                    ctx.eval();
                    ctx.class("playout:null-move");
                    let case = || mk_case(&played);
                    check_node(ctx, &nb, &o, &case)?;
                    check_edge(ctx, &prev, &o, &case)?;
                    prev = o;
                    board = nb;
                    continue;
                }
                None => {
                    if explicit.is_some() {
                        break;
                    }
                }
            }
        }
        let moves = sorted_lib_moves(&board, fp(&(start, &played)));
        if moves.is_empty() {
            ctx.class("playout:ended-terminal");
            break;
        }
        let m = match explicit {
            Some(ms) => match ms.get(ply) {
                Some(m) => *m,
                None => break,
            },
            None => {
                let t = tape.as_mut().unwrap();
                if t.exhausted() {
                    break;
                }
                let p = pos_of_obs(&prev);
                let sp: Vec<Mv> = if special_bias {
                    moves.iter().copied().filter(|m| p.at(m.from).is_some() && (p.at(m.to).is_some() || m.promo.is_some() || matches!(p.at(m.from), Some((_, Kind::K | Kind::R | Kind::P))))).collect()
                } else {
                    vec![]
                };
                if !sp.is_empty() && t.chance(1, 2) {
                    sp[t.below(sp.len())]
                } else {
                    moves[t.below(moves.len())]
                }
            }
        };
        if explicit.is_some() && !moves.contains(&m) {
            break;
        }
        played.push(m);
        ctx.set_case(mk_case(&played));
        let nb = bridge::advance(&board, bridge::mv(m), played.len() as u64 + (fp(start) >> 9), &board);
        let o = observe(&nb);
        ctx.eval();
        let case = || mk_case(&played);
        check_node(ctx, &nb, &o, &case)?;
        check_edge(ctx, &prev, &o, &case)?;
        if prev.placement[m.to as usize].is_some() {
            saw_cap = true;
        }
        if m.promo.is_some() {
            saw_promo = true;
        }
        if o.castle != prev.castle {
            saw_rights = true;
        }
        prev = o;
        board = nb;
    }
    if saw_cap {
        ctx.class("playout:has-capture");
    }
    if saw_promo {
        ctx.class("playout:has-promotion");
    }
    if saw_rights {
        ctx.class("playout:has-rights-change");
    }
    if saw_cap && saw_promo && saw_rights {
        ctx.nontrivial(fp(&(start, &played)));
    }
    ctx.count("plies_played", played.len() as u64);
    ctx.sample(|| json!({"start": start.fen(), "plies": played.len(), "moves_head": played.iter().take(12).map(|m| m.uci()).collect::<Vec<_>>() }));
    Ok(())
}

/// Complete tree of the library's generated moves to `depth`, every node checked.
fn tree(ctx: &mut Ctx, start: &Pos, depth: usize, node_cap: u64) -> Result<u64, Violation> {
    ctx.set_case(json!({"start": start.fen(), "moves": []}));
    let board = match gen::lib_start(start) {
        Some(b) => b,
        None => {
            ctx.reject();
            return Ok(0);
        }
    };
    fn rec(ctx: &mut Ctx, start: &Pos, b: &Board, o: &Obs, path: &mut Vec<Mv>, depth: usize, nodes: &mut u64, cap: u64) -> Result<(), Violation> {
        if depth == 0 || *nodes >= cap {
            return Ok(());
        }
        for m in sorted_lib_moves(b, fp(&(start, &*path))) {
            path.push(m);
            let nb = bridge::advance(b, bridge::mv(m), path.len() as u64 + *nodes, b);
            let no = observe(&nb);
            *nodes += 1;
            ctx.eval();
            let case = || json!({"start": start.fen(), "moves": path.iter().map(|m| m.uci()).collect::<Vec<_>>() });
            ctx.set_case(case());
            check_node(ctx, &nb, &no, &case)?;
            check_edge(ctx, o, &no, &case)?;
            rec(ctx, start, &nb, &no, path, depth - 1, nodes, cap)?;
            path.pop();
        }
        Ok(())
    }
    let o = observe(&board);
    let mut nodes = 0;
    let mut path = vec![];
    rec(ctx, start, &board, &o, &mut path, depth, &mut nodes, node_cap)?;
    if depth >= 3 {
        ctx.nontrivial(fp(&(start, depth as u64)));
    }
    ctx.class(&format!("tree:depth-{}", depth));
    ctx.count("tree_nodes", nodes);
    Ok(nodes)
}

pub fn run(cfg: &Cfg) -> i32 {
    let report = engine::run_shards(cfg, |shard, ctx, seedf| {
        // golden: depth-2 trees from every curated position
        for (i, c) in gen::curated().iter().enumerate() {
            if i % cfg.shards == shard {
                engine::run_one(ctx, |ctx| tree(ctx, &c.pos, 2, 200_000).map(|_| ()))?;
            }
        }
        // long playouts
        let strat = gen::raw_hist_strategy(150, 400);
        engine::pbt(ctx, seedf(1), cfg.per_shard(20_000, 300_000), &strat, |ctx, raw: &RawHist| {
            let (_, start) = match gen::start_of(raw) {
                Some(x) => x,
                None => {
                    ctx.reject();
                    return Ok(());
                }
            };
            let mut t = Tape::new(&raw.choices);
            // one playout in eight starts from a board obtained by a null move or through the
            // deprecated editing API from the generated position
            if raw.start_sel % 8 == 3 {
                if let Some(b0) = gen::lib_start(&start) {
                    let ways = super::editapi::other_ways(&start, &b0, 3);
                    if !ways.is_empty() {
                        let (vp, _, how) = &ways[(raw.policy as usize) % ways.len()];
                        return playout(ctx, vp, Some((&start, how.as_str())), None, Some(&mut t), 400, raw.policy % 2 == 0);
                    }
                }
            }
            playout(ctx, &start, None, None, Some(&mut t), 400, raw.policy % 2 == 0)
        })?;
        // complete trees
        let strat2 = gen::raw_hist_strategy(0, 12);
        let depth_hi = cfg.tier.pick(3usize, 4usize);
        engine::pbt(ctx, seedf(2), cfg.per_shard(1_600, 16_000), &strat2, |ctx, raw: &RawHist| {
            let (_, start) = match gen::start_of(raw) {
                Some(x) => x,
                None => {
                    ctx.reject();
                    return Ok(());
                }
            };
            // a few random reference plies first, so that trees start mid-game
            let mut p = start.clone();
            let mut t = Tape::new(&raw.choices);
            while !t.exhausted() {
                let l = p.legal_moves();
                if l.is_empty() {
                    break;
                }
                p = p.apply(l[t.below(l.len())]);
            }
            let branching = p.legal_moves().len();
            let depth = if branching <= 12 { depth_hi + 1 } else if branching <= 40 { depth_hi } else { depth_hi - 1 };
            tree(ctx, &p, depth, 400_000).map(|_| ())
        })?;
        Ok(())
    });
    engine::finish(
        report,
        EvidenceSpec {
            rule: "cases = (a) long playouts (up to 400 plies or termination) choosing among the library's own generated moves (obtained, varying along the history, in one pass, by the staged captures-first idiom, through three or five destination masks each iterated to exhaustion, or from enumerate_moves), from curated, directly set-up and planted valid starts (one playout in eight from the board that a null move, clear_square or set_piece makes of such a position), (b) complete trees of the library's generated moves to depth 2 from every curated position and depth 3-4 (quick) / 4-5 (thorough, by branching factor; capped at 400k nodes) from generated mid-game positions; every node is checked for king count, mover not left in check (reference attack test on the library's placement), no pawn on ranks 1/8, is_sane(), and every edge for monotone castling rights, men and pawns. evaluations = nodes. Non-trivial = a playout containing a capture, a promotion and a rights change, or a complete tree of depth >= 3; distinct = fingerprints of (start, moves) / (root, depth).".into(),
            assumptions: vec!["reference attack detection (ray walking) decides 'left in check'".into()],
            trusted_base: vec!["harness/src/refmodel.rs (attacks only)".into(), "proptest 1.11".into()],
            exhaustive: None,
            extra: json!({}),
        },
    )
}

pub fn replay(ctx: &mut Ctx, case: &Value) -> Result<(), Violation> {
    let (start, moves) = gen::parse_hist_case(case).map_err(|e| ctx.violation("INFRA", e, Value::Null))?;
    let ex = Explicit { start, moves };
    if let (Some(src), Some(how)) = (case.get("start_obtained_from").and_then(|x| x.as_str()).and_then(|f| Pos::from_fen(f).ok()), case.get("through").and_then(|x| x.as_str())) {
        return playout(ctx, &ex.start, Some((&src, how)), Some(&ex.moves), None, ex.moves.len(), false);
    }
    playout(ctx, &ex.start, None, Some(&ex.moves), None, ex.moves.len(), false)
}
