//! C09 — the position hash separates positions that differ in any single component, and
//! distinct positions met during exploration do not collide.

use super::common;
use crate::bridge;
use crate::engine::{self, fp, Cfg, Ctx, EvidenceSpec, Violation};
use crate::gen::{self, Step};
use crate::refmodel::*;
use serde_json::{json, Value};

static WATCH: std::sync::OnceLock<std::collections::HashSet<u64>> = std::sync::OnceLock::new();
static FOUND: std::sync::Mutex<Vec<(u64, u64, String)>> = std::sync::Mutex::new(Vec::new());

/// Record (hash, identity) for the global collision map; in the second pass (only after a
/// collision was found) also remember the FEN of every position whose hash is being watched.
fn note(ctx: &mut Ctx, hash: u64, p: &Pos) {
    let k = key_of(p);
    // the global map is capped at 4M entries per shard (64M in all): with N = 6.4e7 the chance of
    // a coincidental 64-bit collision in a run is N^2 / 2^65 = 1.1e-4
    if ctx.bag.len() < 4_000_000 {
        ctx.bag.push((hash, k));
    }
    if let Some(w) = WATCH.get() {
        if w.contains(&hash) {
            FOUND.lock().unwrap().push((hash, k, p.fen()));
        }
    }
}

/// Position identity on the reference side (same notion as the hash's documented inputs).
fn key_of(p: &Pos) -> u64 {
    gen::rep_key(p)
}

fn sibling(ctx: &mut Ctx, s: &Step, hs: &[(u64, &'static str)], sib: &Pos, kind: &str, distinct_ep: bool) -> Result<(), Violation> {
    // positions the library does not accept are not part of the quantifier
    let b = match bridge::board_via_builder(sib) {
        Ok(b) => b,
        Err(_) => {
            ctx.count("siblings_rejected_by_library", 1);
            return Ok(());
        }
    };
    if key_of(sib) == key_of(s.pos) && !distinct_ep {
        return Ok(());
    }
    ctx.evals_add(1);
    ctx.class(kind);
    if matches!(kind, "sibling:castling-right-dropped" | "sibling:en-passant-file" | "sibling:side-to-move") {
        ctx.nontrivial(fp(&(s.pos, sib)));
    }
    note(ctx, b.get_hash(), sib);
    for (h, how) in hs {
        if b.get_hash() == *h {
            ctx.fail(
                &format!("hash:collision-{}", kind),
                format!("positions differing in one component ({}) have the same hash {:#018x} (this position obtained through {})", kind, h, how),
                s.case_with(json!({"sibling": sib.fen(), "component": kind, "obtained_through": how})),
            )?;
        }
    }
    Ok(())
}

pub fn check_step(ctx: &mut Ctx, s: &Step) -> Result<(), Violation> {
    let p = s.pos;
    let h = s.board.get_hash();
    ctx.eval();
    {
        let mut q = p.clone();
        if !p.ep_adjacent_pawn() {
            q.ep = None;
        }
        note(ctx, h, &q);
    }
    // only a sample of positions gets the full sibling treatment
    let pf = fp(p);
    if pf % 4 != 0 {
        return Ok(());
    }
    ctx.class("position:siblings-generated");
    // the hash of this position as every construction path reports it
    let mut hs: Vec<(u64, &'static str)> = vec![(h, "the history (make_move_new / make_move alternately)")];
    if let Some((_, pb, m)) = s.prev {
        let a = pb.make_move_new(bridge::mv(m)).get_hash();
        let b2 = bridge::make_in_place(pb, bridge::mv(m), s.board).get_hash();
        if !hs.iter().any(|x| x.0 == a) {
            hs.push((a, "make_move_new"));
        }
        if !hs.iter().any(|x| x.0 == b2) {
            hs.push((b2, "make_move (in place)"));
        }
    }
    if let Ok(f) = bridge::board_via_fen(p) {
        if !hs.iter().any(|x| x.0 == f.get_hash()) {
            hs.push((f.get_hash(), "Board::from_str"));
        }
    }
    // ... and through the deprecated castle-rights mutators: a right removed and added back (alone
    // or as part of `Both`) leaves the same position
    #[allow(deprecated)]
    {
        use chess::CastleRights;
        for (ci, c) in [Col::W, Col::B].into_iter().enumerate() {
            let lc = bridge::col(c);
            let (k, q) = (p.castle[2 * ci], p.castle[2 * ci + 1]);
            let mut chains: Vec<(CastleRights, CastleRights)> = vec![];
            if k {
                chains.push((CastleRights::KingSide, CastleRights::KingSide));
            }
            if q {
                chains.push((CastleRights::QueenSide, CastleRights::QueenSide));
            }
            if k && q {
                chains.push((CastleRights::KingSide, CastleRights::Both));
                chains.push((CastleRights::QueenSide, CastleRights::Both));
                chains.push((CastleRights::Both, CastleRights::Both));
            }
            for (rm, add) in chains {
                let mut e = *s.board;
                e.remove_castle_rights(lc, rm);
                e.add_castle_rights(lc, add);
                if e.castle_rights(lc) == s.board.castle_rights(lc) && !hs.iter().any(|x| x.0 == e.get_hash()) {
                    hs.push((e.get_hash(), "remove_castle_rights then add_castle_rights"));
                }
            }
        }
    }
    // a man taken off and put back through the editing API (the pawn that has just made a double
    // step among them): whatever board comes back, if it is a different position it must not have
    // this position's hash
    #[allow(deprecated)]
    {
        let mut squares: Vec<Sq> = vec![((h >> 13) & 63) as u8, ((h >> 23) & 63) as u8];
        if let Some(t) = p.ep {
            squares.push(if p.stm == Col::W { t - 8 } else { t + 8 });
        }
        let o = bridge::observe(s.board);
        for q in squares {
            if let Some((c, k)) = p.at(q) {
                if k == Kind::K {
                    continue;
                }
                if let Some(back) = s.board.clear_square(bridge::sq(q)).and_then(|r| r.set_piece(bridge::kind(k), bridge::col(c), bridge::sq(q))) {
                    ctx.evals_add(1);
                    let a = bridge::observe(&back);
                    let same_position = a.placement == o.placement && a.stm == o.stm && a.castle == o.castle && a.ep == o.ep;
                    if !same_position && a.hash == o.hash {
                        ctx.fail(
                            "hash:collision-edit-round-trip",
                            format!("clear_square({}) then set_piece back gives a different position (en passant {:?} vs {:?}, castling {:?} vs {:?}) with the same hash {:#018x}", sq_name(q), a.ep, o.ep, a.castle, o.castle, a.hash),
                            s.case_with(json!({"edit": format!("clear_square({}) then set_piece back", sq_name(q))})),
                        )?;
                    }
                }
            }
        }
    }
    if hs.len() > 1 {
        ctx.class("position:construction-paths-disagree-on-hash(C08's business; all are compared)");
    }
    let hs = &hs[..];
    let mut base = p.clone();
    // the en-passant target is part of the position only when the library records it
    if !p.ep_adjacent_pawn() {
        base.ep = None;
    }
    let empties: Vec<Sq> = (0..64u8).filter(|&q| p.at(q).is_none()).collect();
    for q in 0..64u8 {
        let (c, k) = match p.at(q) {
            Some(x) => x,
            None => continue,
        };
        if k == Kind::K {
            continue;
        }
        // removed
        let mut x = base.clone();
        x.board[q as usize] = None;
        fix_rights(&mut x);
        fix_ep(&mut x);
        if x.castle == base.castle && x.ep == base.ep {
            sibling(ctx, s, hs, &x, "sibling:man-removed", false)?;
        }
        // retyped
        for nk in [Kind::P, Kind::N, Kind::B, Kind::R, Kind::Q] {
            if nk == k || (nk == Kind::P && (rank_of(q) == 0 || rank_of(q) == 7)) {
                continue;
            }
            let mut x = base.clone();
            x.board[q as usize] = Some((c, nk));
            fix_rights(&mut x);
            fix_ep(&mut x);
            if x.castle == base.castle && x.ep == base.ep {
                sibling(ctx, s, hs, &x, "sibling:man-retyped", false)?;
            }
        }
        // recoloured
        let mut x = base.clone();
        x.board[q as usize] = Some((c.other(), k));
        fix_rights(&mut x);
        fix_ep(&mut x);
        if x.castle == base.castle && x.ep == base.ep {
            sibling(ctx, s, hs, &x, "sibling:man-recoloured", false)?;
        }
        // moved to two empty squares chosen by the position fingerprint
        if !empties.is_empty() {
            for j in 0..2u64 {
                let e = empties[((pf >> (8 + 8 * j)) as usize + q as usize) % empties.len()];
                if k == Kind::P && (rank_of(e) == 0 || rank_of(e) == 7) {
                    continue;
                }
                let mut x = base.clone();
                x.board[q as usize] = None;
                x.board[e as usize] = Some((c, k));
                fix_rights(&mut x);
                fix_ep(&mut x);
                if x.castle == base.castle && x.ep == base.ep {
                    sibling(ctx, s, hs, &x, "sibling:man-moved", false)?;
                }
            }
        }
    }
    // a man added: on squares chosen by the fingerprint and on the castling squares of both back ranks
    {
        let mut squares: Vec<Sq> = vec![];
        if !empties.is_empty() {
            for j in 0..3u64 {
                squares.push(empties[((pf >> (20 + 6 * j)) % empties.len() as u64) as usize]);
            }
        }
        for q in [0u8, 3, 5, 7, 56, 59, 61, 63] {
            if p.at(q).is_none() {
                squares.push(q);
            }
        }
        squares.sort();
        squares.dedup();
        for (j, q) in squares.into_iter().enumerate() {
            for (c, k) in [(Col::W, Kind::R), (Col::B, Kind::R), (if pf.rotate_right(40 + j as u32) & 1 == 0 { Col::W } else { Col::B }, [Kind::N, Kind::B, Kind::Q, Kind::P][(pf.rotate_right(44 + 2 * j as u32) % 4) as usize])] {
                if k == Kind::P && (rank_of(q) == 0 || rank_of(q) == 7) {
                    continue;
                }
                if base.men(c) >= 16 {
                    continue;
                }
                let mut x = base.clone();
                x.board[q as usize] = Some((c, k));
                fix_ep(&mut x);
                if x.ep == base.ep {
                    sibling(ctx, s, hs, &x, "sibling:man-added", false)?;
                }
            }
        }
    }
    // siblings produced by the deprecated editing API from the board itself (another way of
    // obtaining them): a man retyped / recoloured / removed, a man added
    #[allow(deprecated)]
    if base.ep.is_none() && s.board.en_passant().is_none() {
        let mut squares: Vec<Sq> = (0..64u8).filter(|&q| matches!(p.at(q), Some((_, k)) if k != Kind::K)).collect();
        let keep = 6.min(squares.len());
        let start = if squares.is_empty() { 0 } else { (pf >> 17) as usize % squares.len() };
        squares.rotate_left(start);
        squares.truncate(keep);
        if !empties.is_empty() {
            squares.push(empties[(pf >> 29) as usize % empties.len()]);
        }
        for (j, q) in squares.into_iter().enumerate() {
            let mut edits: Vec<(Option<(Col, Kind)>, Option<chess::Board>, &'static str)> = vec![];
            if let Some((c, k)) = p.at(q) {
                let nk = [Kind::N, Kind::B, Kind::R, Kind::Q][(pf.rotate_right(7 + 2 * j as u32) % 4) as usize];
                if nk != k {
                    edits.push((Some((c, nk)), s.board.set_piece(bridge::kind(nk), bridge::col(c), bridge::sq(q)), "sibling:set_piece-retyped"));
                }
                edits.push((Some((c.other(), k)), s.board.set_piece(bridge::kind(k), bridge::col(c.other()), bridge::sq(q)), "sibling:set_piece-recoloured"));
                edits.push((None, s.board.clear_square(bridge::sq(q)), "sibling:clear_square"));
            } else {
                let c = if pf.rotate_right(3 + j as u32) & 1 == 0 { Col::W } else { Col::B };
                edits.push((Some((c, Kind::N)), s.board.set_piece(bridge::kind(Kind::N), bridge::col(c), bridge::sq(q)), "sibling:set_piece-added"));
            }
            for (content, board, kind) in edits {
                let r = match board {
                    Some(r) => r,
                    None => continue,
                };
                if content == p.at(q) {
                    continue;
                }
                let mut x = base.clone();
                x.board[q as usize] = content;
                ctx.evals_add(1);
                ctx.class(kind);
                if x.validate().is_ok() {
                    note(ctx, r.get_hash(), &x);
                }
                for (h0, how) in hs {
                    if r.get_hash() == *h0 {
                        ctx.fail(
                            &format!("hash:collision-{}", kind),
                            format!("the board that {} makes of this position (square {}) has the same hash {:#018x} as the position itself (obtained through {})", kind, sq_name(q), h0, how),
                            s.case_with(json!({"sibling": x.fen(), "component": kind, "square": sq_name(q)})),
                        )?;
                    }
                }
            }
        }
    }
    // side to move (en-passant state cannot be kept when the side changes)
    if base.ep.is_none() {
        let mut x = base.clone();
        x.stm = p.stm.other();
        sibling(ctx, s, hs, &x, "sibling:side-to-move", false)?;
        if let Some(nb) = s.board.null_move() {
            if nb.get_hash() == h {
                ctx.fail("hash:collision-sibling:side-to-move", "null_move() result has the same hash as the original".into(), s.case())?;
            }
        }
    }
    // every proper subset of the castling rights held
    let held: Vec<usize> = (0..4).filter(|&i| base.castle[i]).collect();
    if !held.is_empty() {
        let n = held.len();
        let mut seen: Vec<(u64, [bool; 4])> = hs.iter().map(|x| (x.0, base.castle)).collect();
        for mask in 0..(1u32 << n) - 1 {
            let mut x = base.clone();
            for (j, &i) in held.iter().enumerate() {
                x.castle[i] = mask >> j & 1 == 1;
            }
            if let Ok(b) = bridge::board_via_builder(&x) {
                ctx.evals_add(1);
                ctx.class("sibling:castling-right-dropped");
                ctx.nontrivial(fp(&(p, x.castle)));
                note(ctx, b.get_hash(), &x);
                for (oh, oc) in &seen {
                    if *oh == b.get_hash() {
                        ctx.fail("hash:collision-sibling:castling-right-dropped", format!("castling rights {:?} and {:?} give the same hash", oc, x.castle), s.case_with(json!({"sibling": x.fen()})))?;
                    }
                }
                seen.push((b.get_hash(), x.castle));
            }
        }
    }
    // en-passant file: present vs absent, and one file vs another
    let mut ep_variants: Vec<(Option<Sq>, u64)> = vec![];
    {
        let mut x = base.clone();
        x.ep = None;
        if let Ok(b) = bridge::board_via_builder(&x) {
            ep_variants.push((None, b.get_hash()));
        }
        let (prank, trank): (i8, i8) = if p.stm == Col::W { (4, 5) } else { (3, 2) };
        for f in 0..8i8 {
            let pawn = mk(f, prank).unwrap();
            if p.at(pawn) != Some((p.stm.other(), Kind::P)) {
                continue;
            }
            let mut x = base.clone();
            x.ep = mk(f, trank);
            if !x.ep_adjacent_pawn() {
                continue;
            }
            if let Ok(b) = bridge::board_via_builder(&x) {
                if b.en_passant().is_some() {
                    ep_variants.push((x.ep, b.get_hash()));
                    note(ctx, b.get_hash(), &x);
                }
            }
        }
    }
    for i in 0..ep_variants.len() {
        for j in 0..i {
            ctx.evals_add(1);
            ctx.class("sibling:en-passant-file");
            ctx.nontrivial(fp(&(p, ep_variants[i].0, ep_variants[j].0)));
            if ep_variants[i].1 == ep_variants[j].1 {
                ctx.fail(
                    "hash:collision-sibling:en-passant-file",
                    format!("en-passant state {:?} and {:?} give the same hash", ep_variants[i].0.map(sq_name), ep_variants[j].0.map(sq_name)),
                    s.case(),
                )?;
            }
        }
    }
    ctx.sample(|| s.case());
    Ok(())
}

/// Drop castling rights that are no longer backed by king and rook at home.
fn fix_rights(x: &mut Pos) {
    for (i, ks, rs, c) in [(WK, E1, H1, Col::W), (WQ, E1, A1, Col::W), (BK, E8, H8, Col::B), (BQ, E8, A8, Col::B)] {
        if x.castle[i] && (x.at(ks) != Some((c, Kind::K)) || x.at(rs) != Some((c, Kind::R))) {
            x.castle[i] = false;
        }
    }
}
/// Drop an en-passant target that is no longer backed by pusher and capturer.
fn fix_ep(x: &mut Pos) {
    if let Some(t) = x.ep {
        let dir: i8 = if x.stm == Col::W { 1 } else { -1 };
        let pawn = mk(file_of(t), rank_of(t) - dir).unwrap();
        if x.at(pawn) != Some((x.stm.other(), Kind::P)) || !x.ep_adjacent_pawn() {
            x.ep = None;
        }
    }
}

/// Dense small-material families for the global map: on a few K v K bases, every placement of
/// two further men (any of the ten piece-colours on any free square, pawns off the back ranks),
/// both sides to move.  Two positions of such a family differ in up to four (piece, square) keys,
/// so key tables whose entries alias each other pairwise (k1 ^ k2 == k3 ^ k4) collide here even
/// when every single-component sibling still differs.
fn dense_pairs(cfg: &Cfg, shard: usize, ctx: &mut Ctx) -> Result<(), Violation> {
    let bases: &[(&str, &str)] = match cfg.tier {
        engine::Tier::Quick => &[("c6", "e4"), ("h8", "a1"), ("e8", "e1"), ("b7", "g2")],
        _ => &[("c6", "e4"), ("h8", "a1"), ("e8", "e1"), ("b7", "g2"), ("h1", "d4"), ("a3", "h5"), ("g8", "g1"), ("d5", "f2"), ("a8", "c7"), ("f6", "h6")],
    };
    let men: Vec<(Col, Kind)> = [Col::W, Col::B].into_iter().flat_map(|c| [Kind::P, Kind::N, Kind::B, Kind::R, Kind::Q].into_iter().map(move |k| (c, k))).collect();
    for (bk, wk) in bases {
        let (bk, wk) = (parse_sq(bk).unwrap(), parse_sq(wk).unwrap());
        let slots: Vec<(Sq, (Col, Kind))> = (0..64u8)
            .filter(|&q| q != bk && q != wk)
            .flat_map(|q| men.iter().map(move |m| (q, *m)))
            .filter(|(q, (_, k))| *k != Kind::P || (rank_of(*q) != 0 && rank_of(*q) != 7))
            .collect();
        for (i, (q1, m1)) in slots.iter().enumerate() {
            if i % cfg.shards != shard {
                continue;
            }
            for (q2, m2) in slots[i + 1..].iter() {
                if q1 == q2 {
                    continue;
                }
                for stm in [Col::W, Col::B] {
                    let mut p = Pos::empty();
                    p.board[wk as usize] = Some((Col::W, Kind::K));
                    p.board[bk as usize] = Some((Col::B, Kind::K));
                    p.board[*q1 as usize] = Some(*m1);
                    p.board[*q2 as usize] = Some(*m2);
                    p.stm = stm;
                    match bridge::board_via_builder(&p) {
                        Ok(b) => {
                            ctx.evals_add(1);
                            ctx.count("dense_family_positions", 1);
                            note(ctx, b.get_hash(), &p);
                        }
                        Err(_) => ctx.count("dense_family_rejected_by_library", 1),
                    }
                }
            }
        }
    }
    ctx.class("family:two-further-men-on-KvK-bases");
    Ok(())
}

fn explore(cfg: &Cfg, shard: usize, ctx: &mut Ctx, seed: u64) -> Result<(), Violation> {
    common::golden(cfg, shard, ctx, &check_step)?;
    dense_pairs(cfg, shard, ctx)?;
    common::histories(ctx, seed, cfg.per_shard(120_000, 800_000), 6, 48, None, &check_step)?;
    Ok(())
}

pub fn run(cfg: &Cfg) -> i32 {
    let mut report = engine::run_shards(cfg, |shard, ctx, seedf| explore(cfg, shard, ctx, seedf(1)));
    // global collision map over every distinct position met by any shard
    let mut all: Vec<(u64, u64)> = vec![];
    for c in report.ctxs.iter_mut() {
        all.append(&mut c.bag);
    }
    all.sort_unstable();
    all.dedup();
    let distinct_positions = all.len() as u64;
    let mut collisions = 0u64;
    for w in all.windows(2) {
        if w[0].0 == w[1].0 && w[0].1 != w[1].1 {
            collisions += 1;
        }
    }
    if collisions > 0 {
        // second, identical pass that remembers the positions behind the colliding hashes, so
        // that the replay file names a concrete pair
        let mut watch = std::collections::HashSet::new();
        for w in all.windows(2) {
            if w[0].0 == w[1].0 && w[0].1 != w[1].1 && watch.len() < 64 {
                watch.insert(w[0].0);
            }
        }
        let _ = WATCH.set(watch);
        let _ = engine::run_shards(cfg, |shard, ctx, seedf| {
            ctx.frozen = true;
            explore(cfg, shard, ctx, seedf(1))
        });
        let mut found = FOUND.lock().unwrap().clone();
        found.sort();
        found.dedup();
        let mut pair: Option<(String, String, u64)> = None;
        for w in found.windows(2) {
            if w[0].0 == w[1].0 && w[0].1 != w[1].1 {
                pair = Some((w[0].2.clone(), w[1].2.clone(), w[0].0));
                break;
            }
        }
        let case = match &pair {
            Some((a, b, h)) => json!({"positions": [a, b], "hash": format!("{:#018x}", h)}),
            None => json!({"note": "global map collision; rerun with the same VERIF_SEED to reproduce", "seed": cfg.seed}),
        };
        let v = Violation {
            prop: cfg.id.clone(),
            sig: "hash:global-collision".into(),
            what: format!("{} pairs of distinct positions share a 64-bit hash among {} distinct positions (expected by chance: {:.2e}); example pair: {:?}", collisions, distinct_positions, (distinct_positions as f64).powi(2) / 2f64.powi(65), pair.as_ref().map(|p| (&p.0, &p.1))),
            case,
        };
        report.violations.push(v);
    }
    if let Some(c) = report.ctxs.first_mut() {
        c.count("global_map_distinct_positions", distinct_positions);
        c.count("global_map_collisions", collisions);
        if distinct_positions >= 100_000 {
            c.nontrivial(fp(&("global-map", distinct_positions)));
        }
    }
    engine::finish(
        report,
        EvidenceSpec {
            rule: "cases = every position on golden and generated histories, and every placement of two further men on a few K v K bases (dense families in which positions differ pairwise in up to four piece-square keys), goes into a global map hash -> position identity; one position in four additionally gets all its single-component siblings built through BoardBuilder: each non-king man removed / retyped / recoloured / moved to two empty squares, a man added on a few empty squares and on the castling squares of both back ranks (also as produced from the board itself by set_piece / clear_square), side to move flipped (also via null_move), every proper subset of the castling rights held, en-passant state absent vs present on each possible file. the position's own hash is taken through every construction path (history, make_move_new, in-place make_move, FEN) and each of these values is compared with every sibling. evaluations = positions + siblings compared. Non-trivial = a sibling differing in castling rights, en-passant file or side to move, or a global map of >= 100000 distinct positions; distinct = fingerprints of (position, sibling).".into(),
            assumptions: vec![
                "the global map holds at most 6.4e7 distinct positions, so the expected number of chance collisions is N^2/2^65 <= 1.1e-4; any collision is reported (false-alarm probability per run about 1e-4)".into(),
                "says nothing about adversarially constructed collisions".into(),
            ],
            trusted_base: vec!["harness/src/refmodel.rs (position identity)".into(), "proptest 1.11".into()],
            exhaustive: None,
            extra: json!({}),
        },
    )
}

pub fn replay(ctx: &mut Ctx, case: &Value) -> Result<(), Violation> {
    if let Some(ps) = case.get("positions").and_then(|p| p.as_array()) {
        let fens: Vec<&str> = ps.iter().filter_map(|x| x.as_str()).collect();
        if fens.len() == 2 {
            let a = Pos::from_fen(fens[0]).map_err(|e| ctx.violation("INFRA", e, Value::Null))?;
            let b = Pos::from_fen(fens[1]).map_err(|e| ctx.violation("INFRA", e, Value::Null))?;
            if let (Ok(x), Ok(y)) = (bridge::board_via_builder(&a), bridge::board_via_builder(&b)) {
                if key_of(&a) != key_of(&b) && x.get_hash() == y.get_hash() {
                    return ctx.fail("hash:global-collision", format!("{:?} and {:?} are different positions with the same hash {:#018x}", fens[0], fens[1], x.get_hash()), case.clone());
                }
            }
            return Ok(());
        }
    }
    let visit = |ctx: &mut Ctx, s: &Step| {
        // force the sibling treatment regardless of the sampling rule
        let r = check_step_forced(ctx, s);
        r
    };
    common::replay_hist(ctx, case, &visit)
}

fn check_step_forced(ctx: &mut Ctx, s: &Step) -> Result<(), Violation> {
    // the sampling rule depends only on the position fingerprint, so a replayed failing
    // position is sampled again; positions skipped by the rule cannot have failed
    check_step(ctx, s)
}
