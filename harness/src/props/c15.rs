//! C15 — sliding attack lookups equal ray walking for every square and occupancy, in the
//! default (magic multiplication) build and in the +bmi2 (pext/pdep) build.
//!
//! The harness is compiled twice by `./check C15`; this module is the same in both builds and
//! additionally compares the `_bmi` entry points when `target_feature = "bmi2"` is on.

use crate::engine::{self, fp, Cfg, Ctx, EvidenceSpec, Violation};
use crate::refmodel::{file_of, mk, rank_of, sq_name, Sq};
use chess::{get_bishop_moves, get_bishop_rays, get_rook_moves, get_rook_rays, BitBoard, Square};
use proptest::prelude::*;
use serde_json::{json, Value};

const ROOK_D: [(i8, i8); 4] = [(1, 0), (-1, 0), (0, 1), (0, -1)];
const BISHOP_D: [(i8, i8); 4] = [(1, 1), (1, -1), (-1, 1), (-1, -1)];

fn ray_squares(a: Sq, rook: bool) -> Vec<Sq> {
    let mut v = vec![];
    for (df, dr) in if rook { ROOK_D } else { BISHOP_D } {
        let (mut f, mut r) = (file_of(a) + df, rank_of(a) + dr);
        while let Some(s) = mk(f, r) {
            v.push(s);
            f += df;
            r += dr;
        }
    }
    v
}
/// Walk each ray up to and including the first occupied square.
fn walk(a: Sq, rook: bool, occ: u64) -> u64 {
    let mut out = 0u64;
    for (df, dr) in if rook { ROOK_D } else { BISHOP_D } {
        let (mut f, mut r) = (file_of(a) + df, rank_of(a) + dr);
        while let Some(s) = mk(f, r) {
            out |= 1u64 << s;
            if occ >> s & 1 == 1 {
                break;
            }
            f += df;
            r += dr;
        }
    }
    out
}
fn sqs(b: u64) -> Vec<String> {
    (0..64u8).filter(|s| b >> s & 1 == 1).map(sq_name).collect()
}

pub const BUILD: &str = if cfg!(target_feature = "bmi2") { "bmi2" } else { "default" };

pub fn check_lookup(ctx: &mut Ctx, a: Sq, rook: bool, occ: u64) -> Result<(), Violation> {
    let want = walk(a, rook, occ);
    let q = Square::new(a);
    let bb = BitBoard::new(occ);
    let got = if rook { get_rook_moves(q, bb).0 } else { get_bishop_moves(q, bb).0 };
    let piece = if rook { "rook" } else { "bishop" };
    let case = || json!({"square": sq_name(a), "piece": piece, "occupancy": format!("{:#018x}", occ), "build": BUILD});
    ctx.evals_add(1);
    if got != want {
        ctx.set_case(case());
        ctx.fail(
            &format!("slider:{}-magic", piece),
            format!("get_{}_moves({}, {:#x}) = {:?}, ray walking gives {:?} [{} build]", piece, sq_name(a), occ, sqs(got), sqs(want), BUILD),
            case(),
        )?;
    }
    #[cfg(target_feature = "bmi2")]
    {
        let gotb = if rook { chess::get_rook_moves_bmi(q, bb).0 } else { chess::get_bishop_moves_bmi(q, bb).0 };
        ctx.evals_add(1);
        if gotb != want {
            ctx.set_case(case());
            ctx.fail(
                &format!("slider:{}-bmi2", piece),
                format!("get_{}_moves_bmi({}, {:#x}) = {:?}, ray walking gives {:?} (magic variant: {:?})", piece, sq_name(a), occ, sqs(gotb), sqs(want), sqs(got)),
                case(),
            )?;
        }
    }
    Ok(())
}

/// All subsets of the rays of `a`, each combined with the given fillings of the other squares.
pub fn check_square(ctx: &mut Ctx, a: Sq, rook: bool, noise: &[u64]) -> Result<(), Violation> {
    let rays = ray_squares(a, rook);
    let raymask: u64 = rays.iter().fold(0, |x, s| x | 1u64 << s);
    let piece = if rook { "rook" } else { "bishop" };
    ctx.set_case(json!({"square": sq_name(a), "piece": piece, "occupancy": "all ray subsets", "build": BUILD}));
    // get_*_rays are not among the lookups the statement speaks about (they are an internal mask of
    // the attack lookups): a difference from the empty-board rays is only counted
    let q = Square::new(a);
    let r = if rook { get_rook_rays(q).0 } else { get_bishop_rays(q).0 };
    if r != raymask {
        ctx.count("rays_table_differs_from_empty_board_rays(not asserted)", 1);
    }
    let n = rays.len();
    for subset in 0..(1u32 << n) {
        let mut base = 0u64;
        for (i, s) in rays.iter().enumerate() {
            if subset >> i & 1 == 1 {
                base |= 1u64 << s;
            }
        }
        ctx.nontrivial(fp(&(a, rook, subset)));
        for nz in noise {
            let occ = base | (nz & !raymask);
            check_lookup(ctx, a, rook, occ)?;
        }
    }
    ctx.class(if rook { "square:rook-all-ray-subsets" } else { "square:bishop-all-ray-subsets" });
    Ok(())
}

/// What one lookup of a sequence answers: (magic variant, pext variant where compiled in).
fn ask(a: Sq, rook: bool, occ: u64) -> (u64, Option<u64>) {
    let q = Square::new(a);
    let bb = BitBoard::new(occ);
    let got = if rook { get_rook_moves(q, bb).0 } else { get_bishop_moves(q, bb).0 };
    #[cfg(target_feature = "bmi2")]
    let gotb = Some(if rook { chess::get_rook_moves_bmi(q, bb).0 } else { chess::get_bishop_moves_bmi(q, bb).0 });
    #[cfg(not(target_feature = "bmi2"))]
    let gotb = None;
    (got, gotb)
}

/// Lookups asked one after another the way a program asks them - for the men of one position in
/// turn, then for a man that has just moved - on a thread of their own, so that the answers are a
/// function of the sequence alone: each must be what ray walking gives, whatever was asked before.
pub fn check_sequence(ctx: &mut Ctx, seq: &[(Sq, bool, u64)]) -> Result<(), Violation> {
    let case = || json!({"sequence": seq.iter().map(|(a, r, o)| json!([sq_name(*a), if *r { "rook" } else { "bishop" }, format!("{:#018x}", o)])).collect::<Vec<_>>(), "build": BUILD});
    ctx.set_case(case());
    let answers: Vec<(u64, Option<u64>)> = std::thread::scope(|sc| sc.spawn(|| seq.iter().map(|&(a, r, o)| ask(a, r, o)).collect()).join()).map_err(|_| ctx.violation("slider:panic", "a lookup of the sequence panicked".into(), case()))?;
    ctx.evals_add(seq.len() as u64 * if cfg!(target_feature = "bmi2") { 2 } else { 1 });
    for (i, (&(a, rook, occ), &(got, gotb))) in seq.iter().zip(answers.iter()).enumerate() {
        let want = walk(a, rook, occ);
        let piece = if rook { "rook" } else { "bishop" };
        if got != want {
            ctx.fail(&format!("slider:{}-magic", piece), format!("lookup {} of the sequence: get_{}_moves({}, {:#x}) = {:?}, ray walking gives {:?} [{} build]", i, piece, sq_name(a), occ, sqs(got), sqs(want), BUILD), case())?;
        }
        if let Some(gb) = gotb {
            if gb != want {
                ctx.fail(&format!("slider:{}-bmi2", piece), format!("lookup {} of the sequence: get_{}_moves_bmi({}, {:#x}) = {:?}, ray walking gives {:?}", i, piece, sq_name(a), occ, sqs(gb), sqs(want)), case())?;
            }
        }
    }
    Ok(())
}

/// A sequence from generated words: an occupancy of chosen density, its men asked in some order
/// with some piece kinds, then men moved along their own attack sets and asked again.
pub fn sequence_of(w: &[u64; 6]) -> Vec<(Sq, bool, u64)> {
    let mut occ = match w[3] % 6 {
        0 => w[0],
        1 | 2 => w[0] & w[1],
        3 => w[0] & w[1] & w[2],
        // crowded back ranks, thin middle
        4 => (w[0] & 0xFF00_0000_0000_00FF) | (w[1] & w[2] & 0x00FF_FFFF_FFFF_FF00),
        _ => (w[0] & w[1] & 0xFFFF_0000_0000_FFFF) | (w[2] & w[1] & w[0]),
    };
    if occ == 0 {
        occ = 1 << (w[4] % 64);
    }
    let mut men: Vec<Sq> = (0..64u8).filter(|s| occ >> s & 1 == 1).collect();
    match (w[3] >> 8) % 4 {
        0 => {}
        1 => men.reverse(),
        _ => {
            // a permutation keyed by the generated word
            let k = w[4];
            men.sort_by_key(|s| fp(&(k, *s)));
        }
    }
    men.truncate(24);
    let mut seq = vec![];
    for (i, &s) in men.iter().enumerate() {
        match (w[5] >> (2 * (i % 32))) & 3 {
            0 => seq.push((s, true, occ)),
            1 => seq.push((s, false, occ)),
            2 => {
                seq.push((s, true, occ));
                seq.push((s, false, occ));
            }
            _ => {
                seq.push((s, false, occ));
                seq.push((s, true, occ));
            }
        }
    }
    // men that move along their attack set and are asked again from the new square
    let mut x = w[4];
    for step in 0..6u32 {
        if men.is_empty() {
            break;
        }
        let s = men[(x % men.len() as u64) as usize];
        x = x.rotate_right(11) ^ w[2].rotate_left(step);
        let rook = x & 1 == 0;
        let targets = walk(s, rook, occ) & !occ;
        if targets == 0 {
            continue;
        }
        let ts: Vec<Sq> = (0..64u8).filter(|t| targets >> t & 1 == 1).collect();
        let t = ts[((x >> 8) % ts.len() as u64) as usize];
        seq.push((s, rook, occ));
        occ = occ & !(1u64 << s) | 1u64 << t;
        seq.push((t, rook, occ));
        for m in men.iter_mut() {
            if *m == s {
                *m = t;
            }
        }
    }
    seq
}

pub fn run(cfg: &Cfg) -> i32 {
    let report = engine::run_shards(cfg, |shard, ctx, seedf| {
        let k = cfg.tier.pick(510usize, 8190usize);
        let strat = proptest::collection::vec(any::<u64>(), k);
        // one generated noise vector per shard-and-square; fixed fillings always included
        for a in 0..64u8 {
            if a as usize % cfg.shards != shard {
                continue;
            }
            for rook in [true, false] {
                let stream = 1 + a as u64 * 2 + rook as u64;
                engine::pbt(ctx, seedf(stream), 1, &strat, |ctx, noise: &Vec<u64>| {
                    let mut fill = vec![0u64, !0u64];
                    fill.extend(noise.iter().copied());
                    // own square set / cleared both occur in the noise words
                    check_square(ctx, a, rook, &fill)
                })?;
            }
        }
        // a second pass over this shard's squares in the opposite order and with the piece kinds
        // swapped round (bishop before rook): the lookups are pure functions, so asking again in
        // another order must give the same answers
        for a in (0..64u8).rev() {
            if a as usize % cfg.shards != shard {
                continue;
            }
            for rook in [false, true] {
                engine::run_one(ctx, |ctx| check_square(ctx, a, rook, &[0u64, !0u64, 0x55AA_55AA_55AA_55AA]))?;
            }
        }
        ctx.class("pass:second-pass-in-reverse-order");
        // sequences of lookups as programs issue them
        let words = proptest::array::uniform6(any::<u64>());
        engine::pbt(ctx, seedf(200), cfg.per_shard(160_000, 3_200_000), &words, |ctx, w: &[u64; 6]| {
            let seq = sequence_of(w);
            ctx.nontrivial(fp(&seq));
            ctx.class("sequence:men-of-one-occupancy-in-turn,then-moved-men");
            ctx.count("lookups_in_sequences", seq.len() as u64);
            check_sequence(ctx, &seq)
        })?;
        ctx.sample(|| json!({"build": BUILD, "enumerated": "every subset of each square's rook rays (2^14 per square) and bishop rays (2^7..2^13), each with all-empty, all-full and generated fillings of the other squares"}));
        Ok(())
    });
    // the other build's summary (written by ./check) is folded into this evidence file
    let other: Value = std::env::var("VERIF_C15_OTHER")
        .ok()
        .and_then(|p| std::fs::read_to_string(p).ok())
        .and_then(|t| serde_json::from_str(&t).ok())
        .unwrap_or(Value::Null);
    let rc = engine::finish(
        report,
        EvidenceSpec {
            rule: format!("cases = (square, rook|bishop, subset of that square's rays, filling of the irrelevant squares): every subset of every square's rays is enumerated (1,048,576 rook + 71,168 bishop base occupancies) and combined with the empty, the full and {} generated fillings of the squares off the rays; get_rook_moves / get_bishop_moves (and, in the +bmi2 build, get_*_moves_bmi) are compared with square-by-square ray walking; every square is asked again afterwards in reverse order; then generated sequences of 2-60 lookups (the men of an occupancy of generated density asked in turn in ascending / descending / shuffled order as rook, bishop or both, then men moved along their own attack sets and asked again from the new square), each sequence on a fresh thread, every answer compared with ray walking (get_*_rays are compared with the empty-board rays too, but only counted: the statement is about the attack lookups). evaluations = lookups compared in this build (the other build's count is under other_build). Non-trivial: every base occupancy counts (distinct = distinct (square, piece, ray subset)).", cfg.tier.pick(510, 8190)),
            assumptions: vec!["ray walking oracle from the definition".into(), "the machine supports BMI2 (checked by ./check before running the +bmi2 build)".into()],
            trusted_base: vec!["harness/src/props/c15.rs walk()".into(), "proptest 1.11 (noise)".into()],
            exhaustive: Some(true),
            extra: json!({"build": BUILD, "other_build": other, "exhaustive_note": "complete over (square, ray subset); fillings of irrelevant squares are sampled"}),
        },
    );
    rc
}

pub fn replay(ctx: &mut Ctx, case: &Value) -> Result<(), Violation> {
    let a = crate::refmodel::parse_sq(case["square"].as_str().unwrap_or("a1")).unwrap_or(0);
    let rook = case["piece"].as_str() == Some("rook");
    if let Some(list) = case.get("sequence").and_then(|x| x.as_array()) {
        let seq: Vec<(Sq, bool, u64)> = list
            .iter()
            .filter_map(|e| {
                let a = crate::refmodel::parse_sq(e.get(0)?.as_str()?)?;
                let rook = e.get(1)?.as_str()? == "rook";
                let occ = u64::from_str_radix(e.get(2)?.as_str()?.trim_start_matches("0x"), 16).ok()?;
                Some((a, rook, occ))
            })
            .collect();
        return check_sequence(ctx, &seq);
    }
    match case["occupancy"].as_str().and_then(|s| u64::from_str_radix(s.trim_start_matches("0x"), 16).ok()) {
        Some(occ) => check_lookup(ctx, a, rook, occ),
        None => check_square(ctx, a, rook, &[0, !0, 0x5555_5555_5555_5555, 0xAAAA_AAAA_AAAA_AAAA]),
    }
}
