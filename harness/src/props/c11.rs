//! C11 — draw claims exactly on threefold repetition or the fifty-move rule.

use super::c10::{lib_act, lib_res};
use crate::bridge;
use crate::engine::{self, fp, Cfg, Ctx, EvidenceSpec, Violation};
use crate::gamemodel::{Act, GameModel, Res};
use crate::gen::{self, MoveSource, Policy, RawHist, Tape};
use crate::refmodel::*;
use chess::{Board, Color, Game};
use serde_json::{json, Value};
use std::collections::BTreeMap;
use std::str::FromStr;

fn case_json(start: &Pos, moves: &[Mv]) -> Value {
    json!({"start": start.fen(), "moves": moves.iter().map(|m| m.uci()).collect::<Vec<_>>() })
}

/// All draw-claim assertions at the current point of the game.
fn check_point(ctx: &mut Ctx, g: &Game, m: &GameModel, fen_clock: u32, case: &dyn Fn() -> Value) -> Result<(), Violation> {
    ctx.eval();
    let (cs, cf) = m.claimable();
    let got = g.can_declare_draw();
    let plies = m.mover_count() as usize;
    let three_s = m.occurrences(&m.keys_strict) >= 3;
    let three_f = m.occurrences(&m.keys_fide) >= 3;
    if m.reversible >= 100 {
        ctx.class("point:fifty-move-rule-reached");
    } else if m.reversible == 99 {
        ctx.class("point:99-reversible-half-moves");
    }
    if three_s || three_f {
        ctx.class("point:threefold");
    }
    // a game loaded from FEN text that carries a half-move clock: until the first pawn move or
    // capture *in the game* the statement's "last 100 half-moves" can be read with or without the
    // half-moves the text says came before; where the two readings differ nothing is asserted.
    // After a pawn move or capture the text's clock has nothing left to say
    let clock_matters = fen_clock > 0 && m.reversible as usize == plies && m.result().is_none() && !cs && m.reversible + fen_clock >= 100;
    if fen_clock > 0 {
        ctx.class(if m.reversible as usize == plies { "point:loaded-with-half-move-clock,nothing-irreversible-played-yet" } else { "point:loaded-with-half-move-clock,after-a-pawn-move-or-capture" });
    }
    if cs != cf {
        ctx.class("point:ambiguous-position-identity(not asserted)");
        ctx.count("ambiguous_identity", 1);
    } else if clock_matters {
        ctx.count("fen_clock_reading_ambiguous(not asserted)", 1);
    } else if got != cs {
        let why = format!(
            "{} half-moves played, {} consecutive half-moves without pawn move or capture, current position occurred {} times (strict identity) / {} times (FIDE identity), result {:?}",
            plies,
            m.reversible,
            m.occurrences(&m.keys_strict),
            m.occurrences(&m.keys_fide),
            m.result()
        );
        let sig = if cs {
            if m.reversible >= 100 {
                "draw:fifty-move-claim-refused"
            } else {
                "draw:threefold-claim-refused"
            }
        } else if m.result().is_some() {
            "draw:claim-allowed-after-result"
        } else {
            "draw:claim-allowed-without-grounds"
        };
        ctx.fail(sig, format!("can_declare_draw() = {}, expected {}: {}", got, cs, why), case())?;
    }
    // once a game has a result nothing can be claimed any more, however the result came about: on
    // copies of the game a pending offer is accepted (where the library accepts it) and a side
    // resigns, and the claim is asked again
    for way in 0..2 {
        let mut g3 = g.clone();
        let ended = if way == 0 { g3.accept_draw() } else { g3.resign(bridge::col(m.pos.stm)) };
        if ended && g3.result().is_some() {
            ctx.class(if way == 0 { "point:claim-asked-again-after-accepted-draw" } else { "point:claim-asked-again-after-resignation" });
            let n = g3.actions().len();
            let again = g3.can_declare_draw();
            let claimed = g3.declare_draw();
            if again || claimed || g3.actions().len() != n {
                ctx.fail(
                    "draw:claim-allowed-after-result",
                    format!("after {} the game has the result {:?}, yet can_declare_draw() = {} and declare_draw() = {} (it was {} before)", if way == 0 { "accept_draw()" } else { "resign()" }, g3.result(), again, claimed, got),
                    case(),
                )?;
            }
        }
    }
    // claiming on a copy of the game
    let mut g2 = g.clone();
    let before: Vec<Act> = g2.actions().iter().map(lib_act).collect();
    let claimed = g2.declare_draw();
    if claimed != got {
        ctx.fail("draw:declare-differs-from-can-declare", format!("declare_draw() = {} but can_declare_draw() = {}", claimed, got), case())?;
    }
    let after: Vec<Act> = g2.actions().iter().map(lib_act).collect();
    if claimed {
        let mut want = before.clone();
        want.push(Act::Declare);
        if after != want || lib_res(g2.result()) != Some(Res::DrawDeclared) {
            ctx.fail("draw:successful-claim-effects", format!("after a successful claim: log tail {:?}, result {:?}", after.last(), g2.result()), case())?;
        }
        // the game is over: everything is refused and nothing changes
        let legal = m.pos.legal_moves();
        let mut refused = true;
        if let Some(mv) = legal.first() {
            refused &= !g2.make_move(bridge::mv(*mv));
        }
        refused &= !g2.offer_draw(Color::White) && !g2.accept_draw() && !g2.resign(Color::Black) && !g2.declare_draw();
        let after2: Vec<Act> = g2.actions().iter().map(lib_act).collect();
        if !refused || after2 != want || lib_res(g2.result()) != Some(Res::DrawDeclared) {
            ctx.fail("draw:actions-after-claim", "an action was accepted (or the game changed) after a successful draw claim".into(), case())?;
        }
    } else if after != before || lib_res(g2.result()) != m.result() {
        ctx.fail("draw:refused-claim-changed-game", "a refused claim changed the log or the result".into(), case())?;
    }
    Ok(())
}

pub fn check_history(ctx: &mut Ctx, start: &Pos, src: &mut MoveSource, max_plies: usize) -> Result<(), Violation> {
    ctx.set_case(case_json(start, &[]));
    let b0 = match Board::from_str(&start.fen()) {
        Ok(b) => b,
        Err(_) => {
            ctx.reject();
            return Ok(());
        }
    };
    // games loaded from text get the clocks a FEN writer would put there (a pure function of the
    // start position, so a replay uses the same text); the library's own rendering says "0 1"
    let (half, full) = if fp(start) % 4 == 3 { (0, 1) } else { Pos::clocks_for(fp(&(start, "clocks"))) };
    let mut fen_clock = 0u32;
    let mut g = if *start == Pos::startpos() {
        Game::new()
    } else if fp(start) % 2 == 0 {
        Game::new_with_board(b0)
    } else {
        fen_clock = half;
        // a standard writer records the en-passant square after every double push, capturable or
        // not: when the start has no en-passant state and a pawn of the side that just moved stands
        // where a double push would have put it, with no enemy pawn beside it, the text may name the
        // square behind it - the position (and its identity for repetitions) is the same
        let mut shown = start.clone();
        if start.ep.is_none() {
            let mover = start.stm.other();
            let (r4, dir): (i8, i8) = if mover == Col::W { (3, -1) } else { (4, 1) };
            for f in 0..8i8 {
                let s4 = mk(f, r4).unwrap();
                let (b1, b2) = (mk(f, r4 + dir).unwrap(), mk(f, r4 + 2 * dir).unwrap());
                if start.at(s4) == Some((mover, Kind::P)) && start.at(b1).is_none() && start.at(b2).is_none() {
                    let mut q = start.clone();
                    q.ep = Some(b1);
                    if !q.ep_adjacent_pawn() && q.validate().is_ok() {
                        shown = q;
                        ctx.class("start:text-names-an-uncapturable-en-passant-square");
                        break;
                    }
                }
            }
        }
        let text = shown.fen_with_clocks(half, full);
        #[allow(deprecated)]
        let loaded = if (fp(start) >> 3) % 2 == 0 { Game::from_str(&text).ok() } else { Game::new_from_fen(&text) };
        match loaded {
            Some(g) => g,
            None => {
                ctx.reject();
                return Ok(());
            }
        }
    };
    let mut m = GameModel::new(start);
    let mut moves: Vec<Mv> = vec![];
    let mut counts: BTreeMap<u64, u32> = BTreeMap::new();
    counts.insert(gen::rep_key(start), 1);
    let (mut max_rev, mut saw_three, mut rights_in_stretch) = (0u32, false, false);
    loop {
        {
            let case = || case_json(start, &moves);
            ctx.set_case(case());
            check_point(ctx, &g, &m, fen_clock, &case)?;
        }
        max_rev = max_rev.max(m.reversible);
        saw_three |= m.occurrences(&m.keys_strict) >= 3;
        rights_in_stretch |= m.rights_lost_in_stretch && m.reversible >= 20;
        if moves.len() >= max_plies {
            break;
        }
        let legal = m.pos.legal_moves();
        let mv = match src.next(&m.pos, &legal, &counts) {
            Some(mv) if legal.contains(&mv) => mv,
            _ => break,
        };
        if !g.make_move(bridge::mv(mv)) {
            // acceptance of legal moves is C10's business; without it the history ends here
            ctx.count("legal_move_refused_by_game", 1);
            break;
        }
        m.push_move(mv);
        *counts.entry(gen::rep_key(&m.pos)).or_insert(0) += 1;
        moves.push(mv);
        // attempts at moves that are not legal now and then (a pure function of start and ply):
        // they are refused, leave no trace in the log and change nothing about what can be claimed
        let ha = fp(&(start, moves.len(), "illegal-attempt"));
        if ha % 4 == 0 {
            let occupied: Vec<Sq> = (0..64u8).filter(|s| matches!(m.pos.at(*s), Some((c, _)) if c == m.pos.stm)).collect();
            if !occupied.is_empty() {
                let from = occupied[(ha >> 8) as usize % occupied.len()];
                let to = ((ha >> 20) % 64) as u8;
                let promo = if (ha >> 30) % 8 == 0 { Some(Kind::Q) } else { None };
                let bad = Mv::new(from, to, promo);
                if !m.pos.legal_moves().contains(&bad) {
                    ctx.count("illegal_move_attempts", 1);
                    if g.make_move(bridge::mv(bad)) {
                        // acceptance of moves is C10's business; the history ends here
                        ctx.count("illegal_move_accepted_by_game", 1);
                        break;
                    }
                }
            }
        }
        // unanswered draw offers now and then (a pure function of start and ply, so a replay
        // repeats them): they are actions in the log but neither moves nor grounds for a claim
        let h = fp(&(start, moves.len(), "offer"));
        if h % 6 == 0 && m.result().is_none() {
            let c = if (h >> 8) & 1 == 0 { Col::W } else { Col::B };
            if g.offer_draw(bridge::col(c)) {
                m.log.push(Act::Offer(c));
                ctx.count("draw_offers_in_log", 1);
            }
        }
    }
    if max_rev >= 90 {
        ctx.class("history:>=90-reversible-half-moves");
    }
    if saw_three {
        ctx.class("history:threefold-occurred");
    }
    if rights_in_stretch {
        ctx.class("history:castling-right-lost-inside-counted-stretch");
    }
    if max_rev >= 90 || saw_three || rights_in_stretch {
        ctx.nontrivial(fp(&(start, &moves)));
    }
    ctx.count("plies_played", moves.len() as u64);
    ctx.sample(|| json!({"start": start.fen(), "plies": moves.len(), "max_reversible_run": max_rev, "threefold": saw_three, "moves_head": moves.iter().take(10).map(|m| m.uci()).collect::<Vec<_>>() }));
    Ok(())
}

pub fn run(cfg: &Cfg) -> i32 {
    let report = engine::run_shards(cfg, |shard, ctx, seedf| {
        // golden: the documented repetition pattern, and the repaired fifty-move/castle-rights case
        if shard == 0 {
            let start = Pos::startpos();
            let cycle = ["b1c3", "b8c6", "c3b1", "c6b8"];
            let ms: Vec<Mv> = (0..12).map(|i| Mv::parse_uci(cycle[i % 4]).unwrap()).collect();
            let mut src = MoveSource::Explicit { moves: &ms, i: 0 };
            engine::run_one(ctx, |ctx| check_history(ctx, &start, &mut src, ms.len()))?;
        }
        let starts = ["draw-rights", "draw-rights-b", "castle-all", "castle-all-b", "draw-bare", "draw-knights", "kiwipete", "start", "castle-partial-Kq", "mid-endgame", "ep-two-capturers", "san-rooks-black", "ep-rank-pin-w", "ep-opening", "ep-diag-pin-b", "ep-two-capturers-b", "ep-diag-legal-shuffle-b", "ep-diag-legal-shuffle-w", "ep-diag-stay-w", "ep-text-knight-beside-b", "ep-text-rook-beside-w", "ep-text-queen-beside-b"];
        let pol = [Policy::ReversibleNoThird, Policy::SeekRepetition, Policy::Reversible, Policy::ReversibleNoThird];
        let strat = gen::raw_hist_strategy(100, 260);
        engine::pbt(ctx, seedf(1), cfg.per_shard(20_000, 300_000), &strat, |ctx, raw: &RawHist| {
            // three starts in four come from the positions chosen for long reversible play
            let start = if raw.start_sel % 4 != 0 {
                gen::curated_by_tag(starts[(raw.start_sel as usize / 4) % starts.len()]).clone()
            } else {
                match gen::start_of(raw) {
                    Some((_, p)) => p,
                    None => {
                        ctx.reject();
                        return Ok(());
                    }
                }
            };
            let policy = pol[raw.policy as usize % pol.len()];
            ctx.class(&format!("policy:{:?}", policy));
            let mut src = MoveSource::Tape { policy, tape: Tape::new(&raw.choices) };
            check_history(ctx, &start, &mut src, 260)
        })?;
        Ok(())
    });
    engine::finish(
        report,
        EvidenceSpec {
            rule: "cases = game histories of 100-260 half-moves played inside a Game under policies that avoid pawn moves and captures (never creating a third occurrence / seeking repetitions / plain reversible; 1 ply in 32 is unconstrained), with unanswered draw offers (about one half-move in six) and refused attempts at illegal moves (one in four) interleaved, from positions with castling rights to lose (games loaded from text carry generated clocks and, where a standard writer would put one, an uncapturable en-passant square), bare-piece endgames, the initial position and generated valid positions; after every half-move can_declare_draw() is compared with the draw model (no result, and >= 3 occurrences of the current position in the whole game or >= 100 half-moves without pawn move or capture) and declare_draw() on a copy of the game must return the same answer, append DeclareDraw / set DrawDeclared / refuse all further actions on success and change nothing on refusal; on further copies a pending offer is accepted and a side resigns, after which no claim may succeed. evaluations = query points. Non-trivial = history with >= 90 consecutive reversible half-moves, a threefold occurrence, or a castling right lost inside a counted stretch of >= 20; distinct = history fingerprints.".into(),
            assumptions: vec![
                "position identity is computed twice (strict: en-passant state recorded; FIDE: en-passant only when a capture is legal); points where the two disagree are counted and not asserted".into(),
                "reference rules engine and game model".into(),
            ],
            trusted_base: vec!["harness/src/refmodel.rs".into(), "harness/src/gamemodel.rs".into(), "proptest 1.11".into()],
            exhaustive: None,
            extra: json!({}),
        },
    )
}

pub fn replay(ctx: &mut Ctx, case: &Value) -> Result<(), Violation> {
    let (start, moves) = gen::parse_hist_case(case).map_err(|e| ctx.violation("INFRA", e, Value::Null))?;
    let mut src = MoveSource::Explicit { moves: &moves, i: 0 };
    check_history(ctx, &start, &mut src, moves.len())
}
