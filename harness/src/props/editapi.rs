//! The deprecated editing API of `Board` (`set_piece`, `clear_square`, the six castle-rights
//! mutators) as further ways of *obtaining* a position (C03: "however it was obtained"; C08:
//! "no matter how they were reached").  Everything is a pure function of the position, so a
//! history replay reproduces it.
//!
//! Domain (sound sub-domain of those functions, which are documented as able to create invalid
//! positions): squares not holding a king, no king is placed, no pawn is placed on a back rank;
//! only `Some` results are judged; rights are only *added* when king and rook stand at home.
//! Whether `set_piece` / `clear_square` return `None` is not asserted (no property states it).
#![allow(deprecated)]

use super::c03;
use crate::bridge::{self, observe};
use crate::engine::{fp, Ctx, Violation};
use crate::refmodel::*;
use chess::{Board, CastleRights, Color};
use serde_json::{json, Value};
use std::str::FromStr;

#[derive(Clone, Copy, PartialEq)]
pub enum Mode {
    /// all observables (C03 signatures `board:...`)
    Board,
    /// hash, == and nothing else (C08 signatures `hash:...`)
    Hash,
}

fn compare(ctx: &mut Ctx, mode: Mode, got: &Board, np: &Pos, how: &str, case: &dyn Fn() -> Value) -> Result<(), Violation> {
    if mode == Mode::Board {
        c03::check_board(ctx, np, got, how, case)?;
    }
    // the same position from scratch (only where the edited position is a valid one)
    if np.validate().is_err() {
        ctx.count("edit_result_not_a_valid_position", 1);
        return Ok(());
    }
    match Board::from_str(&np.fen()) {
        Ok(f) => {
            let (a, b) = (observe(got), observe(&f));
            match mode {
                Mode::Board => {
                    if *got != f || a != b {
                        let d = bridge::obs_diff(&a, &b).unwrap_or_else(|| "boards differ under == only".into());
                        ctx.fail("board:edit-vs-fen", format!("[{}] board differs from the same position parsed from FEN {:?}: {}", how, np.fen(), d), case())?;
                    }
                }
                Mode::Hash => {
                    if a.hash != b.hash {
                        ctx.fail("hash:edit-vs-fen", format!("[{}] get_hash() {:#018x}, but {:#018x} for the same position parsed from FEN {:?}", how, a.hash, b.hash, np.fen()), case())?;
                    } else if *got != f && bridge::obs_diff(&a, &b).is_none() {
                        ctx.fail("hash:edit-eq", format!("[{}] all observables equal those of the board parsed from {:?}, yet the boards are not ==", how, np.fen()), case())?;
                    }
                }
            }
        }
        Err(_) => ctx.count("edit_fen_rejected", 1),
    }
    Ok(())
}

fn cr(k: bool, q: bool) -> CastleRights {
    bridge::rights(k, q)
}

/// `n_squares` piece edits and all applicable rights edits on position `p` / board `b`.
pub fn check_edits(ctx: &mut Ctx, mode: Mode, p: &Pos, b: &Board, n_squares: usize, case0: &dyn Fn() -> Value) -> Result<(), Violation> {
    let h = fp(&(p, "edit"));
    // ---------------------------------------------------------------- set_piece / clear_square
    // (positions with en-passant state are handled further down: the editing functions keep the
    // recorded state whatever happens to the pawns involved, which no property speaks about)
    if p.ep.is_none() && b.en_passant().is_none() {
        for i in 0..n_squares {
            let s = ((h >> (6 * i)) & 63) as u8;
            if matches!(p.at(s), Some((_, Kind::K))) {
                continue;
            }
            // clear
            if p.at(s).is_some() {
                let mut np = p.clone();
                np.board[s as usize] = None;
                let case = || {
                    let mut c = case0();
                    c["edit"] = json!(format!("clear_square({})", sq_name(s)));
                    c
                };
                match b.clear_square(bridge::sq(s)) {
                    Some(r) => {
                        ctx.class("edit:clear_square");
                        compare(ctx, mode, &r, &np, "clear_square", &case)?;
                    }
                    None => ctx.class("edit:clear_square-none"),
                }
            }
            // set (on empty and on occupied squares)
            let kinds = [Kind::P, Kind::N, Kind::B, Kind::R, Kind::Q];
            let mut k = kinds[((h >> (24 + 3 * i)) % 5) as usize];
            if k == Kind::P && (rank_of(s) == 0 || rank_of(s) == 7) {
                k = Kind::N;
            }
            let c = if (h >> (40 + i)) & 1 == 0 { Col::W } else { Col::B };
            let mut np = p.clone();
            np.board[s as usize] = Some((c, k));
            let case = || {
                let mut cj = case0();
                cj["edit"] = json!(format!("set_piece({:?}, {:?}, {})", k, c, sq_name(s)));
                cj
            };
            match b.set_piece(bridge::kind(k), bridge::col(c), bridge::sq(s)) {
                Some(r) => {
                    ctx.class(if p.at(s).is_some() { "edit:set_piece-replacing" } else { "edit:set_piece-on-empty" });
                    compare(ctx, mode, &r, &np, "set_piece", &case)?;
                }
                None => ctx.class("edit:set_piece-none"),
            }
        }
    }
    // taking a man off and putting the same man back gives the board back, whatever the square
    // (also the pawn that has just made a double step): the editing functions change nothing but
    // the placement and what is derived from it
    {
        let mut squares: Vec<Sq> = (0..n_squares).map(|i| ((h.rotate_right(7) >> (6 * i)) & 63) as u8).collect();
        if let Some(t) = p.ep {
            squares.push(if p.stm == Col::W { t - 8 } else { t + 8 });
        }
        for s in squares {
            if let Some((c, k)) = p.at(s) {
                if k == Kind::K {
                    continue;
                }
                if let Some(back) = b.clear_square(bridge::sq(s)).and_then(|r| r.set_piece(bridge::kind(k), bridge::col(c), bridge::sq(s))) {
                    ctx.class("edit:clear_square-then-set_piece-back");
                    let (a, o) = (observe(&back), observe(b));
                    if back != *b || a != o {
                        let d = bridge::obs_diff(&a, &o).unwrap_or_else(|| "boards differ under == only".into());
                        let mut cj = case0();
                        cj["edit"] = json!(format!("clear_square({}) then set_piece back", sq_name(s)));
                        ctx.fail(if mode == Mode::Board { "board:edit-round-trip" } else { "hash:edit-round-trip" }, format!("clear_square({}) followed by set_piece of the same man does not give the board back: {}", sq_name(s), d), cj)?;
                    }
                }
            }
        }
    }
    // with en-passant state recorded: edits that leave the en-passant situation alone (not the pushed
    // pawn, not the two squares behind it, and a pawn that can capture remains) keep the state, and
    // the edited board is the position with that state; the squares beside the pushed pawn first
    if let (Some(t), Some(_)) = (p.ep, b.en_passant()) {
        let (pawn_sq, origin) = if p.stm == Col::W { (t - 8, t + 8) } else { (t + 8, t - 8) };
        let mut squares: Vec<Sq> = vec![];
        for df in [-1i8, 1] {
            if let Some(q) = mk(file_of(pawn_sq) + df, rank_of(pawn_sq)) {
                squares.push(q);
            }
        }
        for i in 0..n_squares {
            squares.push(((h >> (6 * i)) & 63) as u8);
        }
        for (i, s) in squares.into_iter().enumerate() {
            if s == pawn_sq || s == t || s == origin || matches!(p.at(s), Some((_, Kind::K))) {
                continue;
            }
            if p.at(s).is_some() {
                let mut np = p.clone();
                np.board[s as usize] = None;
                if np.ep_adjacent_pawn() && np.validate().is_ok() {
                    let case = || {
                        let mut c = case0();
                        c["edit"] = json!(format!("clear_square({})", sq_name(s)));
                        c
                    };
                    if let Some(r) = b.clear_square(bridge::sq(s)) {
                        ctx.class("edit:clear_square-with-en-passant-state");
                        compare(ctx, mode, &r, &np, "clear_square", &case)?;
                    }
                }
            }
            let kinds = [Kind::P, Kind::N, Kind::B, Kind::R, Kind::Q];
            let mut k = kinds[(h.rotate_right(24 + 3 * i as u32) % 5) as usize];
            if k == Kind::P && (rank_of(s) == 0 || rank_of(s) == 7) {
                k = Kind::N;
            }
            let c = if h.rotate_right(40 + i as u32) & 1 == 0 { Col::W } else { Col::B };
            let mut np = p.clone();
            np.board[s as usize] = Some((c, k));
            if np.ep_adjacent_pawn() && np.validate().is_ok() {
                let case = || {
                    let mut cj = case0();
                    cj["edit"] = json!(format!("set_piece({:?}, {:?}, {})", k, c, sq_name(s)));
                    cj
                };
                if let Some(r) = b.set_piece(bridge::kind(k), bridge::col(c), bridge::sq(s)) {
                    ctx.class("edit:set_piece-with-en-passant-state");
                    compare(ctx, mode, &r, &np, "set_piece", &case)?;
                }
            }
        }
    }
    // ---------------------------------------------------------------- castle-rights mutators
    let home = [(WK, E1, H1, Col::W), (WQ, E1, A1, Col::W), (BK, E8, H8, Col::B), (BQ, E8, A8, Col::B)];
    let backed: Vec<bool> = home.iter().map(|(_, ks, rs, c)| p.at(*ks) == Some((*c, Kind::K)) && p.at(*rs) == Some((*c, Kind::R))).collect();
    for (ci, c) in [Col::W, Col::B].into_iter().enumerate() {
        let (ki, qi) = (2 * ci, 2 * ci + 1);
        let lc: Color = bridge::col(c);
        // accessors agree
        if b.my_castle_rights() != b.castle_rights(b.side_to_move()) || b.their_castle_rights() != b.castle_rights(!b.side_to_move()) {
            ctx.fail(if mode == Mode::Board { "board:edit-rights-accessors" } else { "hash:edit-rights-accessors" }, "my_/their_castle_rights() disagree with castle_rights(colour)".into(), case0())?;
        }
        let form = ((h >> (50 + 2 * ci)) % 2) as u8; // 0 = by colour, 1 = my/their
        // remove
        for (rk, rq) in [(true, false), (false, true), (true, true)] {
            if !(rk && p.castle[ki]) && !(rq && p.castle[qi]) {
                continue; // nothing would change
            }
            let mut np = p.clone();
            if rk {
                np.castle[ki] = false;
            }
            if rq {
                np.castle[qi] = false;
            }
            let mut r = *b;
            let how = if form == 0 {
                r.remove_castle_rights(lc, cr(rk, rq));
                "remove_castle_rights"
            } else if c == p.stm {
                r.remove_my_castle_rights(cr(rk, rq));
                "remove_my_castle_rights"
            } else {
                r.remove_their_castle_rights(cr(rk, rq));
                "remove_their_castle_rights"
            };
            let case = || {
                let mut cj = case0();
                cj["edit"] = json!(format!("{}({:?}, k={}, q={})", how, c, rk, rq));
                cj
            };
            ctx.class("edit:remove-rights");
            compare(ctx, mode, &r, &np, how, &case)?;
            // ... and a right (or both) added back afterwards: two edits in a row
            for (ak, aq) in [(rk, rq), (true, true), (true, false), (false, true)] {
                if (ak && !backed[ki]) || (aq && !backed[qi]) {
                    continue;
                }
                if !(ak && !np.castle[ki]) && !(aq && !np.castle[qi]) {
                    continue;
                }
                let mut np2 = np.clone();
                if ak {
                    np2.castle[ki] = true;
                }
                if aq {
                    np2.castle[qi] = true;
                }
                let mut r2 = r;
                let how2 = if form == 1 {
                    r2.add_castle_rights(lc, cr(ak, aq));
                    "remove_*_castle_rights, then add_castle_rights"
                } else if c == p.stm {
                    r2.add_my_castle_rights(cr(ak, aq));
                    "remove_castle_rights, then add_my_castle_rights"
                } else {
                    r2.add_their_castle_rights(cr(ak, aq));
                    "remove_castle_rights, then add_their_castle_rights"
                };
                let case2 = || {
                    let mut cj = case0();
                    cj["edit"] = json!(format!("{} ({:?}: removed k={} q={}, added k={} q={})", how2, c, rk, rq, ak, aq));
                    cj
                };
                ctx.class("edit:remove-then-add-rights");
                compare(ctx, mode, &r2, &np2, how2, &case2)?;
            }
        }
        // add (only rights backed by king and rook at home)
        for (ak, aq) in [(true, false), (false, true), (true, true)] {
            if (ak && !backed[ki]) || (aq && !backed[qi]) {
                continue;
            }
            if !(ak && !p.castle[ki]) && !(aq && !p.castle[qi]) {
                continue;
            }
            let mut np = p.clone();
            if ak {
                np.castle[ki] = true;
            }
            if aq {
                np.castle[qi] = true;
            }
            let mut r = *b;
            let how = if form == 0 {
                r.add_castle_rights(lc, cr(ak, aq));
                "add_castle_rights"
            } else if c == p.stm {
                r.add_my_castle_rights(cr(ak, aq));
                "add_my_castle_rights"
            } else {
                r.add_their_castle_rights(cr(ak, aq));
                "add_their_castle_rights"
            };
            let case = || {
                let mut cj = case0();
                cj["edit"] = json!(format!("{}({:?}, k={}, q={})", how, c, ak, aq));
                cj
            };
            ctx.class("edit:add-rights");
            compare(ctx, mode, &r, &np, how, &case)?;
        }
    }
    Ok(())
}

/// Valid positions obtained from `p` / `b` through the deprecated editing API or a null move, as
/// (reference position, library board, description).  Used by the properties that quantify over
/// "every valid position" so that they also see boards whose cached check / pin data was computed
/// by those paths.  Only results that are valid positions are returned.
/// Men standing in pairs between a king and an enemy slider aimed at it (nothing else on the
/// line): taking one of the two away turns the other into a pinned piece, or - when the pair
/// screens the king of the side not to move - into the single blocker of a masked battery.
pub fn double_blockers(p: &Pos) -> Vec<Sq> {
    let mut out = vec![];
    for c in [Col::W, Col::B] {
        let k = match p.king_sq(c) {
            Some(k) => k,
            None => continue,
        };
        for (df, dr) in [(1i8, 0i8), (-1, 0), (0, 1), (0, -1), (1, 1), (1, -1), (-1, 1), (-1, -1)] {
            let mut between: Vec<Sq> = vec![];
            let (mut f, mut r) = (file_of(k) + df, rank_of(k) + dr);
            while let Some(s) = mk(f, r) {
                if let Some((pc, pk)) = p.at(s) {
                    let slides = pk == Kind::Q || (pk == Kind::R && (df == 0 || dr == 0)) || (pk == Kind::B && df != 0 && dr != 0);
                    if pc != c && slides && between.len() == 2 {
                        out.extend(between.iter().copied());
                        break;
                    }
                    between.push(s);
                    if between.len() > 2 {
                        break;
                    }
                }
                f += df;
                r += dr;
            }
        }
    }
    out
}

pub fn other_ways(p: &Pos, b: &Board, n_squares: usize) -> Vec<(Pos, Board, String)> {
    let mut out = vec![];
    let h = fp(&(p, "other-ways"));
    if p.checkers().is_empty() {
        if let Some(nb) = b.null_move() {
            let mut np = p.clone();
            np.stm = p.stm.other();
            np.ep = None;
            if np.validate().is_ok() {
                // and back again: two passes in a row (no en-passant state left to lose)
                if let Some(nb2) = nb.null_move() {
                    let mut np2 = np.clone();
                    np2.stm = p.stm;
                    if np2.validate().is_ok() {
                        out.push((np2, nb2, "null_move().null_move()".to_string()));
                    }
                }
                out.push((np, nb, "null_move()".to_string()));
            }
        }
    }
    if p.ep.is_none() && b.en_passant().is_none() {
        // squares: a checker or a pinned piece first (removing those changes check / pin data), then
        // squares chosen by the fingerprint
        let mut squares: Vec<Sq> = p.checkers();
        squares.extend(p.pinned());
        squares.extend(double_blockers(p));
        for i in 0..n_squares {
            squares.push(((h >> (6 * i)) & 63) as u8);
        }
        for (i, s) in squares.into_iter().enumerate() {
            if matches!(p.at(s), Some((_, Kind::K))) {
                continue;
            }
            if p.at(s).is_some() {
                let mut np = p.clone();
                np.board[s as usize] = None;
                if let Some(r) = b.clear_square(bridge::sq(s)) {
                    if np.validate().is_ok() {
                        out.push((np, r, format!("clear_square({})", sq_name(s))));
                    }
                }
            }
            let kinds = [Kind::P, Kind::N, Kind::B, Kind::R, Kind::Q];
            let mut k = kinds[(h.rotate_right(24 + 3 * i as u32) % 5) as usize];
            if k == Kind::P && (rank_of(s) == 0 || rank_of(s) == 7) {
                k = Kind::N;
            }
            let c = if h.rotate_right(40 + i as u32) & 1 == 0 { Col::W } else { Col::B };
            let mut np = p.clone();
            np.board[s as usize] = Some((c, k));
            if let Some(r) = b.set_piece(bridge::kind(k), bridge::col(c), bridge::sq(s)) {
                if np.validate().is_ok() {
                    out.push((np, r, format!("set_piece({:?}, {:?}, {})", k, c, sq_name(s))));
                }
            }
        }
    }
    out
}
