//! C20 — BitBoard behaves as a set of squares.

use crate::engine::{self, fp, Cfg, Ctx, EvidenceSpec, Violation};
use chess::{BitBoard, File, Rank, Square, EMPTY};
use proptest::prelude::*;
use serde_json::{json, Value};
use std::collections::BTreeSet;

fn set_of(x: u64) -> BTreeSet<u8> {
    (0..64u8).filter(|s| x >> s & 1 == 1).collect()
}

macro_rules! same {
    ($ctx:expr, $sig:expr, $got:expr, $exp:expr, $case:expr, $($arg:tt)*) => {
        if $got != $exp {
            let what = format!($($arg)*);
            $ctx.fail($sig, format!("{}: got {:#x?}, expected {:#x?}", what, $got, $exp), $case)?;
        }
    };
}

/// Consume the set through the other `Iterator` entry points (a type may specialise any of
/// them): all must describe the same ascending sequence as repeated `next()`.
fn consume_variants(ctx: &mut Ctx, x: BitBoard, want: &[u8], case: &dyn Fn() -> serde_json::Value) -> Result<(), Violation> {
    let idx = |s: Square| s.to_index() as u8;
    let n = want.len();
    let collected: Vec<u8> = x.collect::<Vec<Square>>().into_iter().map(idx).collect();
    let mut via_for: Vec<u8> = vec![];
    for s in x {
        via_for.push(idx(s));
    }
    let mut via_for_each: Vec<u8> = vec![];
    x.for_each(|s| via_for_each.push(idx(s)));
    let via_fold: Vec<u8> = x.fold(vec![], |mut v, s| {
        v.push(idx(s));
        v
    });
    let via_map: Vec<u8> = x.map(idx).collect();
    for (name, got) in [("collect", &collected), ("for loop", &via_for), ("for_each", &via_for_each), ("fold", &via_fold), ("map+collect", &via_map)] {
        if got.as_slice() != want {
            ctx.fail("bitboard:iteration", format!("{} yields {:?}, members are {:?}", name, got, want), case())?;
        }
    }
    if x.count() != n {
        ctx.fail("bitboard:iteration-count", format!("Iterator::count() = {}, members: {}", x.count(), n), case())?;
    }
    if x.last().map(idx) != want.last().copied() || x.min().map(idx) != want.first().copied() || x.max().map(idx) != want.last().copied() {
        ctx.fail("bitboard:iteration", format!("last/min/max = {:?}/{:?}/{:?}, members are {:?}", x.last(), x.min(), x.max(), want), case())?;
    }
    for k in [0usize, n / 2, n.saturating_sub(1), n, n + 1] {
        let mut it = x;
        let got = it.nth(k).map(idx);
        if got != want.get(k).copied() {
            ctx.fail("bitboard:iteration", format!("nth({}) = {:?}, expected {:?}", k, got, want.get(k)), case())?;
        }
        // what follows nth(k) is the rest of the sequence
        let rest: Vec<u8> = it.map(idx).collect();
        let expect: &[u8] = if k + 1 <= n { &want[k + 1..] } else { &[] };
        if rest.as_slice() != expect {
            ctx.fail("bitboard:iteration", format!("after nth({}) the iterator yields {:?}, expected {:?}", k, rest, expect), case())?;
        }
    }
    let skipped: Vec<u8> = x.skip(n / 3).take(5).map(idx).collect();
    let expect: Vec<u8> = want.iter().copied().skip(n / 3).take(5).collect();
    if skipped != expect {
        ctx.fail("bitboard:iteration", format!("skip/take yields {:?}, expected {:?}", skipped, expect), case())?;
    }
    let (lo, hi) = x.size_hint();
    if lo > n || hi.map_or(false, |h| h < n) {
        ctx.fail("bitboard:iteration-count", format!("size_hint() = ({}, {:?}) excludes the actual number of members {}", lo, hi, n), case())?;
    }
    Ok(())
}

pub fn check_triple(ctx: &mut Ctx, a: u64, b: u64, c: u64) -> Result<(), Violation> {
    ctx.eval();
    let case = || json!({"a": format!("{:#018x}", a), "b": format!("{:#018x}", b), "c": format!("{:#018x}", c)});
    ctx.set_case(case());
    if a & b != 0 && a & !b != 0 {
        ctx.nontrivial(fp(&(a, b)));
        ctx.class("operands:overlapping-and-differing");
    }
    let (x, y) = (BitBoard::new(a), BitBoard(b));
    same!(ctx, "bitboard:new", x.0, a, case(), "BitBoard::new(a).0");
    // iteration: exactly the members, ascending, terminating
    let mut it = x;
    let mut seen: Vec<u8> = vec![];
    let mut steps = 0;
    while let Some(s) = it.next() {
        seen.push(s.to_index() as u8);
        steps += 1;
        if steps > 64 {
            return ctx.fail("bitboard:iteration", "iterator yields more than 64 squares".into(), case());
        }
    }
    let want: Vec<u8> = set_of(a).into_iter().collect();
    if seen != want {
        ctx.fail("bitboard:iteration", format!("iteration yields {:?}, members are {:?}", seen, want), case())?;
    }
    if it.next().is_some() || it != EMPTY {
        ctx.fail("bitboard:iteration", "iterator not exhausted / not empty after the last member".into(), case())?;
    }
    same!(ctx, "bitboard:popcnt", x.popcnt() as usize, want.len(), case(), "popcnt");
    consume_variants(ctx, x, &want, &case)?;
    if a != 0 {
        same!(ctx, "bitboard:to_square", x.to_square().to_index() as u8, want[0], case(), "to_square (lowest member)");
    }
    // operators, every owned/borrowed combination
    let (and, or, xor) = (a & b, a | b, a ^ b);
    same!(ctx, "bitboard:and", [(x & y).0, (&x & &y).0, (x & &y).0, (&x & y).0], [and; 4], case(), "a & b (4 forms)");
    same!(ctx, "bitboard:or", [(x | y).0, (&x | &y).0, (x | &y).0, (&x | y).0], [or; 4], case(), "a | b (4 forms)");
    same!(ctx, "bitboard:xor", [(x ^ y).0, (&x ^ &y).0, (x ^ &y).0, (&x ^ y).0], [xor; 4], case(), "a ^ b (4 forms)");
    same!(ctx, "bitboard:not", [(!x).0, (!&x).0], [!a; 2], case(), "!a (2 forms)");
    let mut t = x;
    t &= y;
    let mut t2 = x;
    t2 &= &y;
    same!(ctx, "bitboard:and-assign", [t.0, t2.0], [and; 2], case(), "a &= b (2 forms)");
    let mut t = x;
    t |= y;
    let mut t2 = x;
    t2 |= &y;
    same!(ctx, "bitboard:or-assign", [t.0, t2.0], [or; 2], case(), "a |= b (2 forms)");
    let mut t = x;
    t ^= y;
    let mut t2 = x;
    t2 ^= &y;
    same!(ctx, "bitboard:xor-assign", [t.0, t2.0], [xor; 2], case(), "a ^= b (2 forms)");
    // set-algebra laws with a third operand
    let z = BitBoard(c);
    same!(ctx, "bitboard:laws", ((x & y) | z).0, ((x | z) & (y | z)).0, case(), "distributivity");
    same!(ctx, "bitboard:laws", (!(x | y)).0, (!x & !y).0, case(), "De Morgan");
    same!(ctx, "bitboard:laws", ((x ^ y) ^ z).0, (x ^ (y ^ z)).0, case(), "xor associativity");
    // colour reversal flips the ranks and is an involution
    let flipped: u64 = set_of(a).into_iter().fold(0, |acc, s| acc | 1u64 << ((7 - s / 8) * 8 + s % 8));
    same!(ctx, "bitboard:reverse_colors", x.reverse_colors().0, flipped, case(), "reverse_colors");
    same!(ctx, "bitboard:reverse_colors", x.reverse_colors().reverse_colors().0, a, case(), "reverse_colors twice");
    let _ = c;
    same!(ctx, "bitboard:eq", (x == y), (a == b), case(), "==");
    ctx.sample(|| case());
    Ok(())
}

pub fn check_singletons(ctx: &mut Ctx) -> Result<(), Violation> {
    for s in 0..64u8 {
        ctx.eval();
        ctx.nontrivial(fp(&("singleton", s)));
        let case = || json!({"square": s});
        ctx.set_case(case());
        let q = Square::new(s);
        let bb = BitBoard::from_square(q);
        same!(ctx, "bitboard:from_square", bb.0, 1u64 << s, case(), "from_square({})", s);
        same!(ctx, "bitboard:from_square", bb.to_square(), q, case(), "from_square({}).to_square()", s);
        same!(ctx, "bitboard:from_square", bb.popcnt(), 1, case(), "popcnt of singleton");
        same!(ctx, "bitboard:set", BitBoard::set(Rank::from_index((s / 8) as usize), File::from_index((s % 8) as usize)).0, 1u64 << s, case(), "BitBoard::set");
        same!(ctx, "bitboard:from_maybe_square", BitBoard::from_maybe_square(Some(q)), Some(bb), case(), "from_maybe_square(Some)");
        let mut it = bb;
        same!(ctx, "bitboard:iteration", (it.next(), it.next()), (Some(q), None::<Square>), case(), "iteration of singleton");
        consume_variants(ctx, bb, &[s], &case)?;
        same!(ctx, "bitboard:reverse_colors", bb.reverse_colors().0, 1u64 << ((7 - s / 8) * 8 + s % 8), case(), "reverse_colors of singleton");
    }
    same!(ctx, "bitboard:from_maybe_square", BitBoard::from_maybe_square(None), None::<BitBoard>, json!({}), "from_maybe_square(None)");
    same!(ctx, "bitboard:default", (BitBoard::default().0, EMPTY.0), (0, 0), json!({}), "Default / EMPTY");
    Ok(())
}

fn structured() -> impl Strategy<Value = u64> {
    prop_oneof![
        4 => any::<u64>(),
        1 => (0u32..8).prop_map(|r| 0xFFu64 << (8 * r)),
        1 => (0u32..8).prop_map(|f| 0x0101_0101_0101_0101u64 << f),
        1 => Just(0x8040_2010_0804_0201u64),
        1 => Just(0x0102_0408_1020_4080u64),
        1 => Just(0x55AA_55AA_55AA_55AAu64),
        1 => Just(0u64),
        1 => Just(!0u64),
        2 => proptest::collection::vec(0u32..64, 1..4).prop_map(|v| v.into_iter().fold(0u64, |a, s| a | 1u64 << s)),
        2 => proptest::collection::vec(0u32..64, 1..4).prop_map(|v| !v.into_iter().fold(0u64, |a, s| a | 1u64 << s)),
        1 => (any::<u64>(), any::<u64>()).prop_map(|(a, b)| a & b),
        1 => (any::<u64>(), any::<u64>()).prop_map(|(a, b)| a | b),
    ]
}

pub fn run(cfg: &Cfg) -> i32 {
    let report = engine::run_shards(cfg, |shard, ctx, seedf| {
        if shard == 0 {
            engine::run_one(ctx, check_singletons)?;
        }
        let strat = (structured(), structured(), structured());
        engine::pbt(ctx, seedf(1), cfg.per_shard(20_000_000, 300_000_000), &strat, |ctx, t: &(u64, u64, u64)| check_triple(ctx, t.0, t.1, t.2))?;
        Ok(())
    });
    engine::finish(
        report,
        EvidenceSpec {
            rule: "cases = all 64 singletons (from_square / to_square / set / from_maybe_square / iteration / reverse_colors) and generated operand triples (uniform u64, ranks, files, diagonals, checkerboard, empty, full, 1-3 bits, all but 1-3 bits, and-/or-mixtures); for each triple iteration order and termination (through next(), for, collect, for_each, fold, map, count, last, min, max, nth, skip/take; size_hint bounds), popcnt, to_square, all 4 forms of & | ^, both forms of &= |= ^= and !, distributivity / De Morgan / xor-associativity, reverse_colors (rank flip, involution) and == are compared with u64 / BTreeSet arithmetic. evaluations = singletons + triples. Non-trivial = operand pair with non-empty intersection and non-empty difference; distinct = operand fingerprints.".into(),
            assumptions: vec!["u64 arithmetic of the Rust standard library".into()],
            trusted_base: vec!["proptest 1.11".into()],
            exhaustive: None,
            extra: json!({"exhaustive_subdomain": "64 singletons"}),
        },
    )
}

pub fn replay(ctx: &mut Ctx, case: &Value) -> Result<(), Violation> {
    let g = |k: &str| case.get(k).and_then(|v| v.as_str()).and_then(|s| u64::from_str_radix(s.trim_start_matches("0x"), 16).ok());
    match (g("a"), g("b"), g("c")) {
        (Some(a), Some(b), Some(c)) => check_triple(ctx, a, b, c),
        _ => check_singletons(ctx),
    }
}
