//! C08 — the position hash is a pure function of the position (path independence); the
//! standard Hash implementation is consistent with equality.

use crate::bridge::{self, observe};
use crate::engine::{self, fp, Cfg, Ctx, EvidenceSpec, Violation};
use crate::gen::{self, RawHist, Tape};
use crate::refmodel::*;
use chess::Board;
use serde_json::{json, Value};
use std::collections::hash_map::DefaultHasher;
use std::collections::HashMap;
use std::hash::{Hash, Hasher};
use std::str::FromStr;

fn digest(b: &Board) -> u64 {
    let mut h = DefaultHasher::new();
    b.hash(&mut h);
    h.finish()
}

struct Entry {
    hash: u64,
    digest: u64,
    board: Board,
    path: Vec<Mv>,
}

struct Tree<'a> {
    root: &'a Pos,
    prefix: &'a [Mv],
    buckets: HashMap<u64, Entry>,
    nodes: u64,
    cap: u64,
}

fn path_json(root: &Pos, prefix: &[Mv], path: &[Mv]) -> Value {
    json!({"start": root.fen(), "moves": prefix.iter().chain(path.iter()).map(|m| m.uci()).collect::<Vec<_>>() })
}

/// Assertions at one node reached by `path`; `special` = path contains castling / en passant /
/// promotion / capture of a rook on its home square.
fn node(ctx: &mut Ctx, t: &mut Tree, p: &Pos, b: &Board, path: &[Mv], special: bool) -> Result<(), Violation> {
    ctx.eval();
    t.nodes += 1;
    let case = |other: Option<&[Mv]>| {
        let mut c = path_json(t.root, t.prefix, path);
        c["position"] = json!(p.fen());
        if let Some(o) = other {
            c["other_moves"] = json!(t.prefix.iter().chain(o.iter()).map(|m| m.uci()).collect::<Vec<_>>());
        }
        c
    };
    ctx.set_case(case(None));
    let h = b.get_hash();
    let d = digest(b);
    // from-scratch constructions of the same position
    let own = b.to_string();
    for (how, fen) in [("own FEN", own), ("standard FEN", p.fen())] {
        match Board::from_str(&fen) {
            Ok(f) => {
                if f.get_hash() != h {
                    ctx.fail("hash:incremental-vs-fen", format!("get_hash() {:#018x} after moves, {:#018x} when parsed from the {} {:?}", h, f.get_hash(), how, fen), case(None))?;
                }
                if f == *b && digest(&f) != d {
                    ctx.fail("hash:eq-without-equal-Hash", "boards equal under == but std Hash digests differ".into(), case(None))?;
                }
            }
            Err(_) => {
                ctx.count("fen_rejected", 1);
            }
        }
    }
    if let Ok(f) = bridge::board_via_builder(p) {
        if f.get_hash() != h {
            ctx.fail("hash:incremental-vs-builder", format!("get_hash() {:#018x} after moves, {:#018x} via BoardBuilder", h, f.get_hash()), case(None))?;
        }
    }
    // double null move restores the position when there is no en-passant state
    if b.en_passant().is_none() {
        if let Some(n2) = b.null_move().and_then(|n| n.null_move()) {
            ctx.class("path:double-null-move");
            if n2.get_hash() != h || n2 != *b || digest(&n2) != d {
                ctx.fail("hash:double-null-move", "null_move().null_move() differs from the original in hash, == or Hash".into(), case(None))?;
            }
        }
    }
    // Hash must be consistent with ==, whatever pair of boards is compared: also boards of
    // neighbouring (different) positions (one node in sixteen)
    if fp(p) % 16 == 1 {
        let pf = fp(&(p, "neighbours"));
        let men: Vec<Sq> = (0..64u8).filter(|&q| matches!(p.at(q), Some((_, k)) if k != Kind::K)).collect();
        let mut neighbours: Vec<Pos> = vec![];
        for j in 0..3u64 {
            if men.is_empty() {
                break;
            }
            let q = men[((pf >> (8 * j)) % men.len() as u64) as usize];
            let (c, k) = p.at(q).unwrap();
            let mut x = p.clone();
            x.ep = None;
            x.castle = [false; 4];
            x.board[q as usize] = Some((c.other(), k)); // recoloured
            neighbours.push(x.clone());
            let nk = [Kind::N, Kind::B, Kind::R, Kind::Q][((pf >> (30 + 2 * j)) % 4) as usize];
            x.board[q as usize] = Some((c, nk)); // retyped
            neighbours.push(x.clone());
            x.board[q as usize] = None; // removed
            neighbours.push(x);
        }
        let mut x = p.clone();
        x.ep = None;
        x.stm = p.stm.other();
        neighbours.push(x);
        // the position itself with the same simplifications, as the reference of the comparison
        let mut own = p.clone();
        own.ep = None;
        own.castle = [false; 4];
        if let Ok(a) = bridge::board_via_builder(&own) {
            for x in &neighbours {
                if let Ok(f) = bridge::board_via_builder(x) {
                    ctx.class("pair:neighbouring-positions");
                    if f == a && (digest(&f) != digest(&a) || f.get_hash() != a.get_hash()) {
                        let mut c = case(None);
                        c["other_position"] = json!(x.fen());
                        ctx.fail("hash:eq-without-equal-Hash", format!("boards of {:?} and {:?} compare equal under == but their Hash digests / get_hash() differ", own.fen(), x.fen()), c)?;
                    }
                }
            }
        }
    }
    // the deprecated editing API as further ways of reaching a position (one node in sixteen)
    if fp(p) % 16 == 0 {
        super::editapi::check_edits(ctx, super::editapi::Mode::Hash, p, b, 2, &|| case(None))?;
    }
    // transposition bucket
    let key = gen::rep_key(p);
    match t.buckets.get(&key) {
        None => {
            t.buckets.insert(key, Entry { hash: h, digest: d, board: *b, path: path.to_vec() });
            if special {
                ctx.nontrivial(fp(&(p, "special-path")));
            }
        }
        Some(e) => {
            if e.path != path {
                ctx.class("bucket:second-path");
                ctx.nontrivial(fp(&(p, "transposition")));
                if special {
                    ctx.class("bucket:second-path-with-special-move");
                }
            }
            if e.hash != h {
                ctx.fail("hash:path-dependent", format!("same position, get_hash() {:#018x} vs {:#018x} by another move order", h, e.hash), case(Some(&e.path)))?;
            }
            if e.board != *b {
                let dd = bridge::obs_diff(&observe(&e.board), &observe(b)).unwrap_or_else(|| "differ under == only".into());
                ctx.fail("hash:eq-path-dependent", format!("same position reached by two move orders, boards not ==: {}", dd), case(Some(&e.path)))?;
            } else if e.digest != d {
                ctx.fail("hash:eq-without-equal-Hash", "boards equal under == but std Hash digests differ".into(), case(Some(&e.path)))?;
            }
        }
    }
    Ok(())
}

fn is_special_move(p: &Pos, m: Mv) -> bool {
    p.is_castle(m) || p.is_ep_capture(m) || m.promo.is_some() || (matches!(p.at(m.to), Some((_, Kind::R))) && [A1, H1, A8, H8].contains(&m.to))
}

fn rec(ctx: &mut Ctx, t: &mut Tree, p: &Pos, b: &Board, path: &mut Vec<Mv>, special: bool, depth: usize) -> Result<(), Violation> {
    node(ctx, t, p, b, path, special)?;
    if depth == 0 || t.nodes >= t.cap {
        return Ok(());
    }
    for m in p.legal_moves() {
        let np = p.apply(m);
        let nb = b.make_move_new(bridge::mv(m));
        // the in-place entry point is another way of reaching the same position
        let mut nb2 = *t.buckets.values().next().map(|e| &e.board).unwrap_or(b);
        b.make_move(bridge::mv(m), &mut nb2);
        if nb2.get_hash() != nb.get_hash() || nb2 != nb || digest(&nb2) != digest(&nb) {
            path.push(m);
            let c = path_json(t.root, t.prefix, path);
            path.pop();
            ctx.fail("hash:make_move-vs-make_move_new", format!("after {}: make_move (in place) gives hash {:#018x}, make_move_new {:#018x}", m.uci(), nb2.get_hash(), nb.get_hash()), c)?;
        }
        let sp = special || is_special_move(p, m);
        path.push(m);
        // alternate the entry point used to advance, so that descendants inherit either
        let adv = if path.len() % 2 == 0 { nb2 } else { nb };
        rec(ctx, t, &np, &adv, path, sp, depth - 1)?;
        path.pop();
        if t.nodes >= t.cap {
            break;
        }
    }
    Ok(())
}

/// One case: root position (start + prefix moves) and a complete reference-move tree below it.
pub fn check_tree(ctx: &mut Ctx, start: &Pos, prefix: &[Mv], depth: usize, cap: u64) -> Result<(), Violation> {
    let mut p = start.clone();
    ctx.set_case(json!({"start": start.fen(), "moves": []}));
    let mut b = match gen::lib_start(start) {
        Some(b) => b,
        None => {
            ctx.reject();
            return Ok(());
        }
    };
    for m in prefix {
        if !p.legal_moves().contains(m) {
            return Ok(());
        }
        b = b.make_move_new(bridge::mv(*m));
        p = p.apply(*m);
    }
    let mut t = Tree { root: start, prefix, buckets: HashMap::new(), nodes: 0, cap };
    let mut path = vec![];
    rec(ctx, &mut t, &p, &b, &mut path, false, depth)?;
    ctx.class(&format!("tree:depth-{}", depth));
    ctx.count("tree_nodes", t.nodes);
    ctx.count("tree_distinct_positions", t.buckets.len() as u64);
    ctx.sample(|| json!({"root": p.fen(), "depth": depth, "nodes": t.nodes, "distinct_positions": t.buckets.len()}));
    Ok(())
}

fn depth_for(p: &Pos, base: usize) -> usize {
    let br = p.legal_moves().len();
    let men = p.total_men();
    if men <= 5 && br <= 14 {
        base + 2
    } else if br <= 16 {
        base + 1
    } else if br <= 45 {
        base
    } else {
        base - 1
    }
}

pub fn run(cfg: &Cfg) -> i32 {
    let report = engine::run_shards(cfg, |shard, ctx, seedf| {
        for (i, c) in gen::curated().iter().enumerate() {
            if i % cfg.shards == shard {
                let d = depth_for(&c.pos, 3).min(4);
                engine::run_one(ctx, |ctx| check_tree(ctx, &c.pos, &[], d, 150_000))?;
            }
        }
        let strat = gen::raw_hist_strategy(0, 16);
        let base = cfg.tier.pick(3usize, 4usize);
        engine::pbt(ctx, seedf(1), cfg.per_shard(640, 6_400), &strat, |ctx, raw: &RawHist| {
            let (_, start) = match gen::start_of(raw) {
                Some(x) => x,
                None => {
                    ctx.reject();
                    return Ok(());
                }
            };
            let mut p = start.clone();
            let mut prefix = vec![];
            let mut t = Tape::new(&raw.choices);
            let pol = gen::Policy::from_index(raw.policy as usize);
            let counts = Default::default();
            while !t.exhausted() {
                let l = p.legal_moves();
                if l.is_empty() {
                    break;
                }
                let m = gen::choose(pol, &mut t, &p, &l, &counts);
                prefix.push(m);
                p = p.apply(m);
            }
            let d = depth_for(&p, base);
            check_tree(ctx, &start, &prefix, d, 300_000)
        })?;
        Ok(())
    });
    engine::finish(
        report,
        EvidenceSpec {
            rule: "(== / Hash consistency is also asked of pairs of boards of neighbouring positions - a man recoloured, retyped or removed, side flipped - one node in sixteen.) cases = complete trees of legal moves (depth 2-5 by branching factor and material, node cap 150k-300k) below curated positions and below generated mid-game positions; children are produced through make_move_new and through make_move into a used board (both must agree; the tree advances through them alternately); every node's incrementally maintained hash is compared with the hash of the same position parsed from its own FEN, from an independent standard FEN and built through BoardBuilder, with null_move().null_move(), with boards produced by the deprecated editing API (set_piece / clear_square / castle-rights mutators, one node in sixteen) against the edited position parsed from FEN, and with every other node of the tree that is the same position (bucket key computed by the reference model: placement, side, rights, en-passant state) in get_hash, == and std Hash digest. evaluations = tree nodes. Non-trivial = a position reached by >= 2 different move sequences, or by a path containing castling, en passant, promotion or capture of a rook at home; distinct = position fingerprints.".into(),
            assumptions: vec!["reference position identity (placement, side, rights, en-passant state = enemy pawn beside the just-pushed pawn)".into()],
            trusted_base: vec!["harness/src/refmodel.rs".into(), "proptest 1.11".into()],
            exhaustive: None,
            extra: json!({}),
        },
    )
}

pub fn replay(ctx: &mut Ctx, case: &Value) -> Result<(), Violation> {
    let (start, moves) = gen::parse_hist_case(case).map_err(|e| ctx.violation("INFRA", e, Value::Null))?;
    // replay both move orders from the start position and compare at the end
    let others: Vec<Mv> = case
        .get("other_moves")
        .and_then(|m| m.as_array())
        .map(|a| a.iter().filter_map(|x| x.as_str().and_then(Mv::parse_uci)).collect())
        .unwrap_or_default();
    let mut t = Tree { root: &start, prefix: &[], buckets: HashMap::new(), nodes: 0, cap: u64::MAX };
    let run_path = |ctx: &mut Ctx, t: &mut Tree, ms: &[Mv]| -> Result<(), Violation> {
        let mut p = start.clone();
        let mut b = match gen::lib_start(&start) {
            Some(b) => b,
            None => return Ok(()),
        };
        let mut special = false;
        let mut path = vec![];
        for m in ms {
            if !p.legal_moves().contains(m) {
                return Ok(());
            }
            special |= is_special_move(&p, *m);
            let nb = b.make_move_new(bridge::mv(*m));
            let mut nb2 = b;
            b.make_move(bridge::mv(*m), &mut nb2);
            path.push(*m);
            if nb2.get_hash() != nb.get_hash() || nb2 != nb {
                return ctx.fail("hash:make_move-vs-make_move_new", format!("after {}: make_move (in place) gives hash {:#018x}, make_move_new {:#018x}", m.uci(), nb2.get_hash(), nb.get_hash()), path_json(&start, &[], &path));
            }
            b = nb;
            p = p.apply(*m);
        }
        node(ctx, t, &p, &b, &path, special)
    };
    if !others.is_empty() {
        run_path(ctx, &mut t, &others)?;
    }
    run_path(ctx, &mut t, &moves)
}
