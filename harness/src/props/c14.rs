//! C14 — move iterator contract: masks partition, len exact, removed moves stay removed.

use crate::bridge;
use crate::engine::{self, fp, Cfg, Ctx, EvidenceSpec, Violation};
use crate::gen::{self, RawHist, Tape};
use crate::refmodel::*;
use chess::{BitBoard, Board, MoveGen};
use serde_json::{json, Value};
use std::collections::BTreeSet;

#[derive(Clone, Debug, PartialEq)]
pub enum Op {
    RemoveMove(Mv),
    RemoveMask(u64),
    /// set the mask and iterate to exhaustion, asking len()/size_hint() before every next()
    Phase(u64),
    /// iterate to exhaustion under the mask that is already set (the full mask of a fresh
    /// generator) without calling set_iterator_mask first
    Drain,
    /// set the mask without iterating yet (removals may follow before the drain)
    SetMask(u64),
}
/// A second generator brought to the state the program's generator is in when `steps` moves of
/// the drain at `ops[i]` have been taken - by plain `next()` calls only (every earlier phase is
/// drained to its final `None`). What a consuming method makes of the rest must agree with what
/// plain iteration makes of it.
fn twin_at(b: &chess::Board, ops: &[Op], i: usize, steps: usize) -> MoveGen {
    let mut mg = MoveGen::new_legal(b);
    let mut yielded: BTreeSet<Mv> = BTreeSet::new();
    for op in &ops[..i] {
        match op {
            Op::RemoveMove(m) => {
                if !yielded.contains(m) {
                    let _ = mg.remove_move(bridge::mv(*m));
                }
            }
            Op::RemoveMask(bb) => mg.remove_mask(BitBoard::new(*bb)),
            Op::SetMask(m) => mg.set_iterator_mask(BitBoard::new(*m)),
            Op::Phase(m) => {
                mg.set_iterator_mask(BitBoard::new(*m));
                for _ in 0..300 {
                    match mg.next() {
                        Some(x) => {
                            yielded.insert(bridge::rmv(x));
                        }
                        None => break,
                    }
                }
            }
            Op::Drain => {
                for _ in 0..300 {
                    match mg.next() {
                        Some(x) => {
                            yielded.insert(bridge::rmv(x));
                        }
                        None => break,
                    }
                }
            }
        }
    }
    if let Op::Phase(m) = &ops[i] {
        mg.set_iterator_mask(BitBoard::new(*m));
    }
    for _ in 0..steps {
        if mg.next().is_none() {
            break;
        }
    }
    mg
}

impl Op {
    fn to_json(&self) -> Value {
        match self {
            Op::RemoveMove(m) => json!(["remove_move", m.uci()]),
            Op::RemoveMask(b) => json!(["remove_mask", format!("{:#018x}", b)]),
            Op::Phase(b) => json!(["set_iterator_mask+drain", format!("{:#018x}", b)]),
            Op::Drain => json!(["drain"]),
            Op::SetMask(b) => json!(["set_iterator_mask", format!("{:#018x}", b)]),
        }
    }
    fn from_json(v: &Value) -> Option<Op> {
        let a = v.as_array()?;
        let hx = |x: &Value| x.as_str().and_then(|s| u64::from_str_radix(s.trim_start_matches("0x"), 16).ok());
        Some(match a.first()?.as_str()? {
            "remove_move" => Op::RemoveMove(Mv::parse_uci(a.get(1)?.as_str()?)?),
            "remove_mask" => Op::RemoveMask(hx(a.get(1)?)?),
            "drain" => Op::Drain,
            "set_iterator_mask" => Op::SetMask(hx(a.get(1)?)?),
            _ => Op::Phase(hx(a.get(1)?)?),
        })
    }
}

fn occ(p: &Pos, c: Col) -> u64 {
    (0..64u8).filter(|&s| matches!(p.at(s), Some((cc, _)) if cc == c)).fold(0, |a, s| a | 1u64 << s)
}

fn gen_mask(p: &Pos, legal: &[Mv], t: &mut Tape) -> u64 {
    let dests: u64 = legal.iter().fold(0, |a, m| a | 1u64 << m.to);
    match t.below(10) {
        0 => occ(p, p.stm.other()),
        1 => !occ(p, p.stm.other()),
        2 => {
            if legal.is_empty() {
                1u64 << t.below(64)
            } else {
                1u64 << legal[t.below(legal.len())].to
            }
        }
        3 => 0xFFu64 << (8 * t.below(8)),
        4 => 0x0101_0101_0101_0101u64 << t.below(8),
        5 => 0,
        6 => !0,
        7 => {
            // about half of the destination squares
            let mut m = 0u64;
            for s in 0..64 {
                if dests >> s & 1 == 1 && t.chance(1, 2) {
                    m |= 1u64 << s;
                }
            }
            m
        }
        8 => (t.next() as u64) | (t.next() as u64) << 16 | (t.next() as u64) << 32 | (t.next() as u64) << 48,
        _ => {
            // promotion / en-passant destinations if any, else a rank
            let sp: u64 = legal.iter().filter(|m| m.promo.is_some() || p.is_ep_capture(**m)).fold(0, |a, m| a | 1u64 << m.to);
            if sp != 0 {
                sp
            } else {
                0xFF00u64 << (8 * t.below(6))
            }
        }
    }
}

pub fn gen_program(p: &Pos, legal: &[Mv], t: &mut Tape) -> Vec<Op> {
    let mut ops = vec![];
    let gen_removal = |t: &mut Tape, ops: &mut Vec<Op>| {
        if legal.is_empty() {
            return;
        }
        match t.below(8) {
            0 | 1 | 2 if t.chance(1, 6) => {
                // a move that is not there to be removed (a killer or hash move from another
                // position): pseudo-legal but illegal, or a legal move's source with another square
                let illegal: Vec<Mv> = p.pseudo_moves().into_iter().filter(|m| !legal.contains(m)).collect();
                let m = if !illegal.is_empty() && t.chance(1, 2) {
                    illegal[t.below(illegal.len())]
                } else {
                    let l = legal[t.below(legal.len())];
                    Mv::new(l.from, t.below(64) as u8, if t.chance(1, 8) { Some(Kind::Q) } else { None })
                };
                ops.push(Op::RemoveMove(m));
            }
            0 | 1 | 2 => ops.push(Op::RemoveMove(legal[t.below(legal.len())])),
            3 => {
                // forced coverage: en-passant captures and promotions
                let sp: Vec<Mv> = legal.iter().copied().filter(|m| m.promo.is_some() || p.is_ep_capture(*m)).collect();
                let pool = if sp.is_empty() { legal } else { &sp[..] };
                ops.push(Op::RemoveMove(pool[t.below(pool.len())]));
            }
            4 => {
                // all moves of one piece
                let from = legal[t.below(legal.len())].from;
                for m in legal.iter().filter(|m| m.from == from) {
                    if m.promo.is_none() || m.promo == Some(Kind::Q) {
                        ops.push(Op::RemoveMove(*m));
                    }
                }
            }
            5 => {
                // every destination of one piece, as a mask
                let from = legal[t.below(legal.len())].from;
                ops.push(Op::RemoveMask(legal.iter().filter(|m| m.from == from).fold(0, |a, m| a | 1u64 << m.to)));
            }
            6 => ops.push(Op::RemoveMask(1u64 << legal[t.below(legal.len())].to)),
            _ => ops.push(Op::RemoveMask(gen_mask(p, legal, t))),
        }
    };
    for _ in 0..t.below(4) {
        gen_removal(t, &mut ops);
    }
    if t.chance(1, 4) {
        // a fresh generator iterated directly (no set_iterator_mask call at all)
        ops.push(Op::Drain);
        return ops;
    }
    let phases = t.below(4);
    for _ in 0..phases {
        if t.chance(1, 2) {
            ops.push(Op::Phase(gen_mask(p, legal, t)));
        } else {
            // mask first, exclusions next, iteration last
            ops.push(Op::SetMask(gen_mask(p, legal, t)));
            for _ in 0..t.below(3) {
                gen_removal(t, &mut ops);
            }
            ops.push(Op::Drain);
            if t.chance(1, 8) {
                // the exhausted phase stays exhausted, whatever is excluded afterwards
                gen_removal(t, &mut ops);
                ops.push(Op::Drain);
            }
        }
        if t.chance(1, 6) {
            gen_removal(t, &mut ops);
        }
    }
    ops.push(Op::Phase(!0));
    ops
}

pub fn check_program(ctx: &mut Ctx, start: &Pos, moves: &[Mv], ops: &[Op]) -> Result<(), Violation> {
    ctx.eval();
    let case = || json!({"start": start.fen(), "moves": moves.iter().map(|m| m.uci()).collect::<Vec<_>>(), "program": ops.iter().map(|o| o.to_json()).collect::<Vec<_>>() });
    ctx.set_case(case());
    let mut p = start.clone();
    let mut b: Board = match gen::lib_start(start) {
        Some(b) => b,
        None => {
            ctx.reject();
            return Ok(());
        }
    };
    for m in moves {
        if !p.legal_moves().contains(m) {
            return Ok(());
        }
        b = bridge::advance(&b, bridge::mv(*m), fp(&p) >> 11, &b);
        p = p.apply(*m);
    }
    let legal: BTreeSet<Mv> = p.legal_moves().into_iter().collect();
    let mut mg = MoveGen::new_legal(&b);
    // model
    let mut removed: BTreeSet<Mv> = BTreeSet::new(); // must never be yielded
    let mut may: BTreeSet<Mv> = BTreeSet::new(); // same source+destination as a removed move
    let mut yielded: BTreeSet<Mv> = BTreeSet::new();
    let mut nonempty_phases = 0;
    let mut special_removal = false;
    let mut cur_mask: u64 = !0;
    for (i, op) in ops.iter().enumerate() {
        match op {
            Op::RemoveMove(m) => {
                if yielded.contains(m) {
                    continue; // only moves still to come are excluded "beforehand"
                }
                let _ = mg.remove_move(bridge::mv(*m));
                // the other moves with this source and destination (promotion pieces) may go with it,
                // whether or not the move itself was there
                for o in legal.iter().filter(|o| o.from == m.from && o.to == m.to && *o != m) {
                    may.insert(*o);
                }
                if !legal.contains(m) {
                    ctx.class("remove:move-that-is-not-legal");
                }
                if legal.contains(m) {
                    removed.insert(*m);
                    if m.promo.is_some() || p.is_ep_capture(*m) || legal.iter().filter(|o| o.from == m.from).count() == 1 {
                        special_removal = true;
                        ctx.class(if p.is_ep_capture(*m) { "remove:en-passant-capture" } else if m.promo.is_some() { "remove:promotion" } else { "remove:only-move-of-a-piece" });
                    }
                }
            }
            Op::RemoveMask(bb) => {
                mg.remove_mask(BitBoard::new(*bb));
                for m in legal.iter().filter(|m| bb >> m.to & 1 == 1 && !yielded.contains(*m)) {
                    removed.insert(*m);
                }
                ctx.class("remove:destination-mask");
            }
            Op::SetMask(m) => {
                mg.set_iterator_mask(BitBoard::new(*m));
                cur_mask = *m;
                if matches!(ops.get(i + 1), Some(Op::RemoveMove(_)) | Some(Op::RemoveMask(_))) {
                    ctx.class("program:removal-between-set_iterator_mask-and-iteration");
                }
            }
            Op::Phase(_) | Op::Drain => {
                let mask = &match op {
                    Op::Phase(m) => {
                        mg.set_iterator_mask(BitBoard::new(*m));
                        cur_mask = *m;
                        *m
                    }
                    _ => cur_mask,
                };
                let must: BTreeSet<Mv> = legal.iter().copied().filter(|m| mask >> m.to & 1 == 1 && !removed.contains(m) && !may.contains(m) && !yielded.contains(m)).collect();
                let allowed: BTreeSet<Mv> = legal.iter().copied().filter(|m| mask >> m.to & 1 == 1 && !removed.contains(m) && !yielded.contains(m)).collect();
                let mut lens: Vec<(usize, (usize, Option<usize>))> = vec![];
                let mut got: Vec<Mv> = vec![];
                // how the phase is drained: next() by next() with len()/size_hint() before each call
                // (3 phases in 4), or - after a few such steps - through another Iterator entry
                // point (a type may specialise any of them)
                let mode = fp(&(i, mask, "drain-mode")) % 16;
                let steps_first = if mode < 12 { usize::MAX } else { (fp(&(i, "steps")) % 4) as usize };
                let mut finished = false;
                let mut skipped_unknown = 0usize;
                // one phase in four (of those drained call by call) is ended the way a counting loop
                // ends it - when len() says nothing is left - without asking for the final None
                let stop_by_len = mode < 12 && fp(&(i, mask, "stop")) % 4 == 0;
                let mut stopped_by_len = false;
                while got.len() < steps_first {
                    lens.push((mg.len(), mg.size_hint()));
                    if stop_by_len && lens.last().unwrap().0 == 0 {
                        finished = true;
                        stopped_by_len = true;
                        ctx.class("drain:ended-by-len()==0-without-final-None");
                        break;
                    }
                    match mg.next() {
                        Some(m) => got.push(bridge::rmv(m)),
                        None => {
                            finished = true;
                            break;
                        }
                    }
                    if got.len() > 300 {
                        return ctx.fail("iter:does-not-terminate", format!("phase #{} yields more than 300 moves", i), case());
                    }
                }
                // the last drain of a program may consume the generator by value: that is what reaches
                // Iterator methods specialised on MoveGen itself (by_ref() goes through `&mut I`)
                let is_last_drain = !ops[i + 1..].iter().any(|o| matches!(o, Op::Phase(_) | Op::Drain | Op::SetMask(_)));
                let by_value = is_last_drain && mode >= 12 && fp(&(i, "by-value")) % 2 == 0;
                let mut consumed_by_value = false;
                if !finished && by_value {
                    consumed_by_value = true;
                    let before = (mg.len(), mg.size_hint());
                    let owned = std::mem::replace(&mut mg, MoveGen::new_legal(&b));
                    let (rest, counted): (Vec<Mv>, Option<usize>) = match mode {
                        12 => {
                            ctx.class("drain:by-value-collect");
                            (owned.map(bridge::rmv).collect(), None)
                        }
                        13 => {
                            ctx.class("drain:by-value-for_each");
                            let mut v = vec![];
                            owned.for_each(|m| v.push(bridge::rmv(m)));
                            (v, None)
                        }
                        14 => {
                            ctx.class("drain:by-value-fold");
                            (
                                owned.fold(vec![], |mut v, m| {
                                    v.push(bridge::rmv(m));
                                    v
                                }),
                                None,
                            )
                        }
                        _ if fp(&(i, "count-or-last")) % 2 == 0 => {
                            ctx.class("drain:by-value-count");
                            (vec![], Some(owned.count()))
                        }
                        _ => {
                            // last(): the final move of the rest, as plain iteration of a twin
                            // generator in the same state gives it
                            ctx.class("drain:by-value-last");
                            let twin: Vec<Mv> = twin_at(&b, ops, i, got.len()).map(bridge::rmv).collect();
                            let l = owned.last().map(bridge::rmv);
                            if l != twin.last().copied() {
                                ctx.fail(
                                    "iter:last",
                                    format!("phase #{} (mask {:#x}): after {} moves last() = {:?}, but plain iteration of a generator in the same state ends with {:?}", i, mask, got.len(), l.map(|m| m.uci()), twin.last().map(|m| m.uci())),
                                    case(),
                                )?;
                            }
                            (vec![], Some(twin.len()))
                        }
                    };
                    let n_rest = counted.unwrap_or(rest.len());
                    if before.0 != n_rest || before.1 != (n_rest, Some(n_rest)) {
                        ctx.fail(
                            "iter:len",
                            format!("phase #{} (mask {:#x}): after {} moves len() = {}, size_hint() = {:?}, but consuming the generator by value gave {} more moves", i, mask, got.len(), before.0, before.1, n_rest),
                            case(),
                        )?;
                    }
                    if counted.is_some() {
                        // only the number is known: nothing more to compare for this phase
                        ctx.sample(|| case());
                        return Ok(());
                    }
                    got.extend(rest);
                    let total = got.len();
                    let mut full: Vec<(usize, (usize, Option<usize>))> = vec![];
                    for j in 0..=total {
                        full.push(if j < lens.len() { lens[j] } else if j == total { (0, (0, Some(0))) } else { (total - j, (total - j, Some(total - j))) });
                    }
                    lens = full;
                } else if !finished {
                    // the rest of the phase in one go; the length reported before must equal what comes
                    let before = (mg.len(), mg.size_hint());
                    let rest: Vec<Mv> = match mode {
                        12 => {
                            ctx.class("drain:collect");
                            mg.by_ref().map(bridge::rmv).collect()
                        }
                        13 => {
                            ctx.class("drain:for-loop");
                            let mut v = vec![];
                            for m in &mut mg {
                                v.push(bridge::rmv(m));
                            }
                            v
                        }
                        14 => {
                            ctx.class("drain:fold");
                            mg.by_ref().fold(vec![], |mut v, m| {
                                v.push(bridge::rmv(m));
                                v
                            })
                        }
                        _ => {
                            ctx.class("drain:nth-then-rest");
                            // nth(k) consumes k moves that the model never sees: they are accounted
                            // for by number (and assumed to be moves of this phase)
                            let k = (fp(&(i, "nth")) % 6) as usize;
                            let mut v: Vec<Mv> = vec![];
                            match mg.nth(k) {
                                Some(m) => {
                                    skipped_unknown = k;
                                    v.push(bridge::rmv(m));
                                }
                                None => skipped_unknown = before.0,
                            }
                            v.extend(mg.by_ref().map(bridge::rmv));
                            v
                        }
                    };
                    if before.0 != rest.len() + skipped_unknown || before.1 != (before.0, Some(before.0)) {
                        ctx.fail(
                            "iter:len",
                            format!("phase #{} (mask {:#x}): after {} moves len() = {}, size_hint() = {:?}, but {} more moves were yielded", i, mask, got.len(), before.0, before.1, rest.len()),
                            case(),
                        )?;
                    }
                    if rest.len() > 300 {
                        return ctx.fail("iter:does-not-terminate", format!("phase #{} yields more than 300 moves", i), case());
                    }
                    got.extend(rest);
                    lens.push((mg.len(), mg.size_hint()));
                    // align the bookkeeping below: one recorded length per yielded move, plus the final one
                    let total = got.len();
                    let mut full: Vec<(usize, (usize, Option<usize>))> = vec![];
                    for j in 0..=total {
                        full.push(if j < lens.len() - 1 && j < steps_first { lens[j] } else if j == total { *lens.last().unwrap() } else { (total - j, (total - j, Some(total - j))) });
                    }
                    lens = full;
                }
                // exhausted stays exhausted
                if !consumed_by_value && !stopped_by_len && mg.next().is_some() {
                    ctx.fail("iter:yields-after-exhaustion", format!("phase #{}: next() returned a move after None", i), case())?;
                }
                if !got.is_empty() {
                    nonempty_phases += 1;
                }
                let total = got.len();
                for (j, (l, sh)) in lens.iter().enumerate() {
                    // lengths recorded before the unseen moves were skipped include them
                    let want = total - j + if j < steps_first.min(total) { skipped_unknown } else { 0 };
                    if *l != want || *sh != (want, Some(want)) {
                        ctx.fail(
                            "iter:len",
                            format!("phase #{} (mask {:#x}): before next() #{} len() = {}, size_hint() = {:?}, but {} moves were still yielded", i, mask, j, l, sh, want),
                            case(),
                        )?;
                        break;
                    }
                }
                let mut seen: BTreeSet<Mv> = BTreeSet::new();
                for m in &got {
                    if !seen.insert(*m) || yielded.contains(m) {
                        ctx.fail("iter:move-yielded-twice", format!("phase #{}: {} yielded twice", i, m.uci()), case())?;
                    } else if removed.contains(m) {
                        ctx.fail("iter:removed-move-yielded", format!("phase #{}: removed move {} was yielded", i, m.uci()), case())?;
                    } else if !legal.contains(m) {
                        ctx.fail("iter:illegal-move-yielded", format!("phase #{}: {} is not legal", i, m.uci()), case())?;
                    } else if mask >> m.to & 1 == 0 {
                        ctx.fail("iter:move-outside-mask", format!("phase #{} (mask {:#x}): {} does not land on a masked square", i, mask, m.uci()), case())?;
                    } else if !allowed.contains(m) {
                        ctx.fail("iter:unexpected-move", format!("phase #{}: {} unexpected", i, m.uci()), case())?;
                    }
                }
                let missing_all: Vec<Mv> = must.iter().filter(|m| !seen.contains(*m)).copied().collect();
                // moves consumed unseen by nth(k): that many moves of this phase may be missing from what
                // was seen; they count as yielded from now on (if one shows up later it is a duplicate)
                let missing: Vec<String> = if missing_all.len() <= skipped_unknown {
                    yielded.extend(missing_all.iter().copied());
                    vec![]
                } else {
                    missing_all.iter().map(|m| m.uci()).collect()
                };
                if !missing.is_empty() {
                    ctx.fail("iter:move-missing", format!("phase #{} (mask {:#x}): legal, not removed, not yet yielded moves {:?} landing on the mask were not yielded", i, mask, missing), case())?;
                }
                yielded.extend(seen);
            }
        }
    }
    if nonempty_phases >= 2 {
        ctx.class("program:>=2-non-empty-phases");
    }
    if nonempty_phases >= 2 || special_removal {
        ctx.nontrivial(fp(&(p.fen(), format!("{:?}", ops))));
    }
    ctx.sample(|| case());
    Ok(())
}

pub fn run(cfg: &Cfg) -> i32 {
    let report = engine::run_shards(cfg, |shard, ctx, seedf| {
        // golden: the repaired defects' reproductions and every curated position with a plain drain
        if shard == 0 {
            let sp = Pos::startpos();
            let a3c3 = (1u64 << 16) | (1u64 << 18);
            engine::run_one(ctx, |ctx| check_program(ctx, &sp, &[], &[Op::Phase(!0)]))?;
            engine::run_one(ctx, |ctx| check_program(ctx, &sp, &[], &[Op::Drain]))?;
            engine::run_one(ctx, |ctx| check_program(ctx, &sp, &[], &[Op::RemoveMask(a3c3), Op::Drain]))?;
            engine::run_one(ctx, |ctx| check_program(ctx, &sp, &[], &[Op::RemoveMask(a3c3), Op::Phase(!0)]))?;
            engine::run_one(ctx, |ctx| check_program(ctx, &sp, &[], &[Op::RemoveMove(Mv::parse_uci("a2a3").unwrap()), Op::RemoveMove(Mv::parse_uci("a2a4").unwrap()), Op::Drain]))?;
            let promo = Pos::from_fen("8/4P3/8/8/8/k7/8/K7 w - - 0 1").unwrap();
            engine::run_one(ctx, |ctx| check_program(ctx, &promo, &[], &[Op::Phase(!0)]))?;
            let ms: Vec<Mv> = ["e2e4", "h7h6", "e4e5", "d7d5"].iter().map(|m| Mv::parse_uci(m).unwrap()).collect();
            engine::run_one(ctx, |ctx| check_program(ctx, &sp, &ms, &[Op::RemoveMove(Mv::parse_uci("e5d6").unwrap()), Op::Phase(!0)]))?;
        }
        for (i, c) in gen::curated().iter().enumerate() {
            if i % cfg.shards == shard {
                let enemy = occ(&c.pos, c.pos.stm.other());
                engine::run_one(ctx, |ctx| check_program(ctx, &c.pos, &[], &[Op::Phase(enemy), Op::Phase(!0)]))?;
            }
        }
        let strat = gen::raw_hist_strategy(0, 30);
        engine::pbt(ctx, seedf(1), cfg.per_shard(4_000_000, 60_000_000), &strat, |ctx, raw: &RawHist| {
            let (_, start) = match gen::start_of(raw) {
                Some(x) => x,
                None => {
                    ctx.reject();
                    return Ok(());
                }
            };
            // a prefix of reference moves (special-move seeking in half of the cases), then the program
            let mut t = Tape::new(&raw.choices);
            let mut p = start.clone();
            let mut moves = vec![];
            let plies = (raw.setup[95] % 13) as usize;
            let counts = Default::default();
            let pol = if raw.policy % 2 == 0 { gen::Policy::Special } else { gen::Policy::Uniform };
            for _ in 0..plies {
                let l = p.legal_moves();
                if l.is_empty() {
                    break;
                }
                let m = gen::choose(pol, &mut t, &p, &l, &counts);
                p = p.apply(m);
                moves.push(m);
            }
            let legal = p.legal_moves();
            if legal.iter().any(|m| m.promo.is_some()) {
                ctx.class("position:promotion-available");
            }
            if legal.iter().any(|m| p.is_ep_capture(*m)) {
                ctx.class("position:en-passant-available");
            }
            let ops = gen_program(&p, &legal, &mut t);
            check_program(ctx, &start, &moves, &ops)
        })?;
        Ok(())
    });
    engine::finish(
        report,
        EvidenceSpec {
            rule: "cases = (position, program): positions are curated / set-up starts advanced by 0-12 reference moves; a program is 0-3 removals (a legal move, an en-passant capture or promotion if available, all moves of one piece, all destinations of one piece as a mask, a single destination, a generated mask) followed either by a direct drain of the fresh generator (no set_iterator_mask call; 1 program in 4) or by 0-3 mask phases (half of them as set_iterator_mask, then 0-2 further removals, then the drain; enemy occupancy and its complement, one destination, rank, file, empty, full, half of the destination squares, random, promotion/en-passant squares; occasionally another removal between phases) and a final full-mask phase; each phase is drained with len() and size_hint() recorded before every next() (one phase in four is drained, after 0-3 such steps, through collect / a for loop / fold / nth instead, with len() checked before and after). Oracle: a set model over the reference legal moves - every phase yields each not-yet-yielded, not-removed legal move landing on the mask exactly once (other promotions to a removed promotion's square may or may not appear), nothing else, and every recorded len()/size_hint() equals the number of moves actually yielded afterwards in that phase. evaluations = programs. Non-trivial = >= 2 non-empty phases, or removal of an en-passant capture, a promotion or a piece's only move; distinct = program fingerprints.".into(),
            assumptions: vec!["reference legal move set".into(), "masks are replaced only after exhaustion and removals are made only between phases, as the statement's quantifier says".into()],
            trusted_base: vec!["harness/src/refmodel.rs".into(), "proptest 1.11".into()],
            exhaustive: None,
            extra: json!({}),
        },
    )
}

pub fn replay(ctx: &mut Ctx, case: &Value) -> Result<(), Violation> {
    let (start, moves) = gen::parse_hist_case(case).map_err(|e| ctx.violation("INFRA", e, Value::Null))?;
    let mut ops = vec![];
    for o in case.get("program").and_then(|p| p.as_array()).cloned().unwrap_or_default() {
        ops.push(Op::from_json(&o).ok_or_else(|| ctx.violation("INFRA", "bad op".into(), Value::Null))?);
    }
    check_program(ctx, &start, &moves, &ops)
}
