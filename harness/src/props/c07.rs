//! C07 — validation never panics, accepts only playable positions (and every valid one), and
//! every accepted position is safe to hand to move generation, status, rendering and move
//! application.

use super::c06::{builder_state, BuilderState};
use crate::bridge::{self, observe, Obs};
use crate::engine::{self, fp, guarded, Cfg, Ctx, EvidenceSpec, Violation};
use crate::gen::{self, Tape};
use crate::refmodel::*;
use chess::{Board, BoardBuilder, Game, MoveGen};
use proptest::prelude::*;
use serde_json::{json, Value};
use std::convert::TryFrom;
use std::str::FromStr;

fn pos_of(o: &Obs) -> Pos {
    let mut p = Pos::empty();
    p.board = o.placement;
    p.stm = o.stm;
    p.castle = o.castle;
    if let Some(s) = o.ep {
        // library convention: the pushed pawn's square; the target lies behind it
        let dir: i8 = if o.stm == Col::W { 1 } else { -1 };
        p.ep = mk(file_of(s), rank_of(s) + dir);
    }
    p
}

/// Soundness of acceptance: the four conditions of the statement.
fn check_accepted(ctx: &mut Ctx, b: &Board, case: &dyn Fn() -> Value) -> Result<(), Violation> {
    let o = observe(b);
    let p = pos_of(&o);
    for c in [Col::W, Col::B] {
        if p.count(c, Kind::K) != 1 {
            ctx.fail("accept:king-count", format!("accepted although {:?} has {} kings", c, p.count(c, Kind::K)), case())?;
        }
    }
    if p.count(Col::W, Kind::K) == 1 && p.count(Col::B, Kind::K) == 1 && p.in_check(p.stm.other()) {
        ctx.fail("accept:non-mover-in-check", "accepted although the side not to move is in check".into(), case())?;
    }
    for (i, ks, rs, c) in [(WK, E1, H1, Col::W), (WQ, E1, A1, Col::W), (BK, E8, H8, Col::B), (BQ, E8, A8, Col::B)] {
        if o.castle[i] && (p.at(ks) != Some((c, Kind::K)) || p.at(rs) != Some((c, Kind::R))) {
            ctx.fail("accept:unbacked-castling-right", format!("accepted with castling right #{} but king/rook not at home", i), case())?;
        }
    }
    if let Some(s) = o.ep {
        let enemy = o.stm.other();
        let want_rank = if enemy == Col::W { 3 } else { 4 };
        if p.at(s) != Some((enemy, Kind::P)) || rank_of(s) != want_rank {
            ctx.fail("accept:bad-en-passant", format!("accepted with en_passant() = {} which is not an enemy pawn on its double-push rank", sq_name(s)), case())?;
        }
    }
    Ok(())
}

/// Safety: exercise the accepted board through every consumer named in the statement.
fn exercise(ctx: &mut Ctx, b: &Board, case: &dyn Fn() -> Value) -> Result<(), Violation> {
    let o = observe(b);
    let p = pos_of(&o);
    let valid = p.validate().is_ok();
    let r = guarded(|| {
        let mg = MoveGen::new_legal(b);
        let n = mg.len();
        let moves: Vec<chess::ChessMove> = mg.collect();
        let _ = b.status();
        let _ = b.to_string();
        let _ = b.get_hash();
        let _ = b.null_move().map(|n| n.get_hash());
        let _ = b.is_sane();
        let mut deeper = 0usize;
        for m in &moves {
            let s1 = b.make_move_new(*m);
            let mut s2 = *b;
            b.make_move(*m, &mut s2);
            if valid {
                let _ = s1.to_string();
                let _ = s1.get_hash();
                // successors of valid positions are positions again: go one level further
                let mg2 = MoveGen::new_legal(&s1);
                deeper += mg2.len();
                for m2 in mg2 {
                    let _ = s1.make_move_new(m2).get_hash();
                }
                let _ = s1.status();
            }
        }
        // and a few narrow lines further down (six plies): castling first, then captures made by a
        // king, otherwise a move picked by a fingerprint - what goes wrong with an accepted
        // position may need a few moves to surface
        // (only from positions that can stand directly after a double push when they carry
        // en-passant state: with a check that the push cannot have given, the library offers the
        // en-passant capture although it does not answer the check - an unreachable position no
        // property speaks about - and a king is lost two plies later)
        if valid && p.ep_predecessor_ok() {
            for k in 0..3u64 {
                let mut cur = *b;
                for ply in 0..6u64 {
                    let ms: Vec<chess::ChessMove> = MoveGen::new_legal(&cur).collect();
                    if ms.is_empty() {
                        break;
                    }
                    let is_king = |m: &chess::ChessMove| cur.piece_on(m.get_source()) == Some(chess::Piece::King);
                    let castle = ms.iter().find(|m| is_king(m) && (m.get_source().get_file().to_index() as i32 - m.get_dest().get_file().to_index() as i32).abs() == 2);
                    let king_takes = ms.iter().find(|m| is_king(m) && cur.piece_on(m.get_dest()).is_some());
                    let pick = match (castle, king_takes) {
                        (Some(m), _) if k == 0 || ply > 0 => *m,
                        (_, Some(m)) => *m,
                        _ => ms[(fp(&(k, ply, cur.get_hash())) % ms.len() as u64) as usize],
                    };
                    cur = cur.make_move_new(pick);
                    let _ = cur.status();
                    let _ = cur.to_string();
                    deeper += 1;
                }
            }
        }
        (n, moves.len(), deeper)
    });
    match r {
        Err(e) => ctx.fail("accepted-board:panic", format!("panic while exercising an accepted board: {}", e), case()),
        Ok((n, m, _)) => {
            ctx.count("moves_applied_on_accepted_boards", m as u64);
            let _ = n;
            if valid {
                ctx.class("accepted:valid-position");
            } else {
                ctx.class("accepted:not-a-valid-chess-position");
            }
            Ok(())
        }
    }
}

pub fn check_text(ctx: &mut Ctx, t: &str, must_accept: Option<&Pos>) -> Result<(), Violation> {
    ctx.eval();
    let case = || json!({"text": t});
    ctx.set_case(case());
    ctx.sample(|| case());
    let rb = match guarded(|| Board::from_str(t)) {
        Ok(r) => r,
        Err(e) => return ctx.fail("parse:panic", format!("Board::from_str({:?}) panicked: {}", t, e), case()),
    };
    if let Err(e) = guarded(|| BoardBuilder::from_str(t).map(|b| b.to_string())) {
        ctx.fail("parse:panic", format!("BoardBuilder::from_str({:?}) panicked: {}", t, e), case())?;
    }
    // the deprecated wrappers are conversions of text into a position too
    #[allow(deprecated)]
    {
        match guarded(|| Board::from_fen(t.to_string())) {
            Err(e) => ctx.fail("parse:panic", format!("Board::from_fen({:?}) panicked: {}", t, e), case())?,
            Ok(Some(fb)) => check_accepted(ctx, &fb, &case)?,
            Ok(None) => {
                if let Some(p) = must_accept {
                    ctx.fail("accept:valid-position-rejected", format!("Board::from_fen rejects the valid position {:?}", p.fen()), case())?;
                }
            }
        }
        match guarded(|| Game::new_from_fen(t).map(|g| g.current_position())) {
            Err(e) => ctx.fail("parse:panic", format!("Game::new_from_fen({:?}) panicked: {}", t, e), case())?,
            Ok(Some(gb)) => check_accepted(ctx, &gb, &case)?,
            Ok(None) => {}
        }
    }
    match guarded(|| Game::from_str(t).map(|g| g.current_position())) {
        Err(e) => ctx.fail("parse:panic", format!("Game::from_str({:?}) panicked: {}", t, e), case())?,
        Ok(Ok(gb)) => {
            // a game built from text holds a position converted from that text: same conditions
            check_accepted(ctx, &gb, &case)?;
        }
        Ok(Err(_)) => {}
    }
    match (&rb, must_accept) {
        (Err(e), Some(p)) => {
            ctx.fail("accept:valid-position-rejected", format!("the valid position {:?} is rejected: {:?}", p.fen(), e), case())?;
        }
        (Ok(b), Some(p)) => {
            ctx.class("text:standard-fen-of-valid-position");
            if let Some(d) = bridge::obs_vs_pos(&observe(b), p) {
                ctx.fail("accept:parsed-position-differs", format!("parsed position differs from the text: {}", d), case())?;
            }
        }
        _ => {}
    }
    match rb {
        Ok(b) => {
            if must_accept.is_none() {
                ctx.class("text:nonstandard-accepted");
                ctx.nontrivial(fp(&t));
            }
            check_accepted(ctx, &b, &case)?;
            exercise(ctx, &b, &case)?;
        }
        Err(_) => ctx.class("text:rejected"),
    }
    Ok(())
}

pub fn check_builder(ctx: &mut Ctx, st: &BuilderState, must_accept: bool) -> Result<(), Violation> {
    ctx.eval();
    let case = || json!({"builder": st.to_json()});
    ctx.set_case(case());
    let w = st.squares.iter().filter(|x| matches!(x, Some((Col::W, _)))).count();
    let k = st.squares.iter().filter(|x| matches!(x, Some((Col::B, _)))).count();
    let wk = st.squares.iter().filter(|x| **x == Some((Col::W, Kind::K))).count();
    let bk = st.squares.iter().filter(|x| **x == Some((Col::B, Kind::K))).count();
    if w > 16 || k > 16 {
        ctx.class("builder:more-than-16-men-on-a-side");
    }
    if wk != 1 || bk != 1 {
        ctx.class("builder:kings-not-1+1");
    }
    if st.ep_file.is_some() {
        ctx.class("builder:en-passant-file-set");
    }
    if w > 16 || k > 16 || wk != 1 || bk != 1 || st.ep_file.is_some() {
        ctx.nontrivial(fp(&format!("{:?}", st)));
    }
    let bb = st.build();
    let r = match guarded(|| Board::try_from(&bb)) {
        Ok(r) => r,
        Err(e) => return ctx.fail("convert:panic", format!("Board::try_from(&builder) panicked: {}", e), case()),
    };
    // the other conversion entry points agree
    let mut bb_mut = bb;
    let r3 = guarded(|| Board::try_from(&mut bb_mut).is_ok());
    let r2 = guarded(|| Board::try_from(bb).is_ok());
    if r2 != Ok(r.is_ok()) || r3 != Ok(r.is_ok()) {
        ctx.fail("convert:entry-points-disagree", "TryFrom<BoardBuilder> / TryFrom<&mut BoardBuilder> and TryFrom<&BoardBuilder> disagree".into(), case())?;
    }
    match r {
        Ok(b) => {
            ctx.class("builder:accepted");
            check_accepted(ctx, &b, &case)?;
            exercise(ctx, &b, &case)?;
        }
        Err(e) => {
            ctx.class("builder:rejected");
            if must_accept {
                ctx.fail("accept:valid-position-rejected", format!("builder state of a valid position rejected: {:?}", e), case())?;
            }
        }
    }
    ctx.sample(|| case());
    Ok(())
}

/// A builder taken from a *Board* of the valid position `start` and then edited in place (through
/// `IndexMut` or the setters, chosen per edit by `sel`): the conversions must judge the edited
/// state, not the board it came from.
pub fn check_edited_board_builder(ctx: &mut Ctx, start: &Pos, target: &BuilderState, sel: u64) -> Result<(), Violation> {
    ctx.eval();
    let case = || json!({"board_fen": start.fen(), "edited_to": target.to_json(), "sel": sel});
    ctx.set_case(case());
    let b0 = match Board::from_str(&start.fen()) {
        Ok(b) => b,
        Err(_) => {
            ctx.reject();
            return Ok(());
        }
    };
    let mut bb: BoardBuilder = if sel % 2 == 0 { (&b0).into() } else { b0.into() };
    let mut n_edits = 0;
    for s in 0..64u8 {
        let want = target.squares[s as usize];
        if want == start.at(s) {
            continue;
        }
        n_edits += 1;
        let q = bridge::sq(s);
        let via_index = (sel >> (2 + (s % 32))) & 1 == 0;
        match (want, via_index) {
            (Some((c, k)), true) => bb[q] = Some((bridge::kind(k), bridge::col(c))),
            (Some((c, k)), false) => {
                bb.piece(q, bridge::kind(k), bridge::col(c));
            }
            (None, true) => bb[q] = None,
            (None, false) => {
                bb.clear_square(q);
            }
        }
    }
    if target.stm != start.stm {
        bb.side_to_move(bridge::col(target.stm));
    }
    if target.castle != start.castle {
        bb.castle_rights(chess::Color::White, bridge::rights(target.castle[0], target.castle[1]));
        bb.castle_rights(chess::Color::Black, bridge::rights(target.castle[2], target.castle[3]));
    }
    if target.ep_file != start.ep.map(|t| t & 7) {
        bb.en_passant(target.ep_file.map(|f| chess::File::from_index(f as usize)));
    }
    ctx.class("builder:taken-from-a-board-then-edited");
    if n_edits > 0 {
        ctx.nontrivial(fp(&(start, format!("{:?}", target))));
    }
    let r = match guarded(|| Board::try_from(&bb)) {
        Ok(r) => r,
        Err(e) => return ctx.fail("convert:panic", format!("Board::try_from(&builder) panicked: {}", e), case()),
    };
    let mut bb_mut = bb;
    let r3 = guarded(|| Board::try_from(&mut bb_mut).is_ok());
    let r2 = guarded(|| Board::try_from(bb).is_ok());
    if r2 != Ok(r.is_ok()) || r3 != Ok(r.is_ok()) {
        ctx.fail("convert:entry-points-disagree", "TryFrom<BoardBuilder> / TryFrom<&mut BoardBuilder> and TryFrom<&BoardBuilder> disagree".into(), case())?;
    }
    // the same state filled into a fresh builder is the reference for acceptance
    let fresh = guarded(|| Board::try_from(&target.build()).is_ok());
    if fresh != Ok(r.is_ok()) {
        ctx.count("edited_builder_and_fresh_builder_disagree_on_acceptance", 1);
    }
    if let Ok(b) = r {
        check_accepted(ctx, &b, &case)?;
        exercise(ctx, &b, &case)?;
    }
    Ok(())
}

fn state_of(p: &Pos) -> BuilderState {
    BuilderState { squares: p.board.to_vec(), stm: p.stm, castle: p.castle, ep_file: p.ep.map(|t| t & 7) }
}

/// A valid position from a tape: curated or set up, then a few random plies.
fn valid_position(t: &mut Tape) -> Option<Pos> {
    let mut p = if t.chance(1, 3) {
        let c = gen::curated();
        c[t.below(c.len())].pos.clone()
    } else if t.chance(1, 6) {
        // the longest texts a position can have (men and single empty squares alternating)
        gen::plant_long_fen(t)?
    } else if t.chance(1, 10) {
        gen::plant_many_sliders(t)?
    } else {
        gen::setup_position(t)?
    };
    let plies = t.below(6);
    for _ in 0..plies {
        let l = p.legal_moves();
        if l.is_empty() {
            break;
        }
        let sp: Vec<Mv> = l.iter().copied().filter(|m| p.is_double_push(*m)).collect();
        let m = if !sp.is_empty() && t.chance(1, 2) { sp[t.below(sp.len())] } else { l[t.below(l.len())] };
        p = p.apply(m);
    }
    Some(p)
}

const ALPHABET: &[char] = &[
    'p', 'n', 'b', 'r', 'q', 'k', 'P', 'N', 'B', 'R', 'Q', 'K', '1', '2', '3', '4', '5', '6', '7', '8', '9', '0', '/', ' ', 'w', 'b', '-', 'a', 'h', 'e', 'x', 'W', 'é', '中', '\u{1F600}', '\t', '\n',
];

/// Mutate a well-formed FEN (tape-driven).
fn mutate_fen(fen: &str, other: &str, t: &mut Tape) -> String {
    let mut fields: Vec<String> = fen.split(' ').map(|s| s.to_string()).collect();
    let n_ops = 1 + t.below(3);
    let mut text = fen.to_string();
    for _ in 0..n_ops {
        match t.below(14) {
            0 => {
                // swap two fields
                let (i, j) = (t.below(fields.len()), t.below(fields.len()));
                fields.swap(i, j);
                text = fields.join(" ");
            }
            1 => {
                let i = t.below(fields.len());
                fields.remove(i);
                text = fields.join(" ");
                if fields.is_empty() {
                    fields.push(String::new());
                }
            }
            2 => {
                let i = t.below(fields.len());
                let f = fields[i].clone();
                fields.insert(i, f);
                text = fields.join(" ");
            }
            3 => {
                // en-passant field: any square, or junk
                if fields.len() > 3 {
                    fields[3] = if t.chance(7, 8) { sq_name(t.below(64) as u8) } else { "z9".into() };
                    text = fields.join(" ");
                }
            }
            4 => {
                if fields.len() > 2 {
                    let pool = ["KQkq", "K", "Q", "k", "q", "Kq", "Qk", "KQ", "kq", "-", "QKqk", "KKKK", "AHah", "", "KQkq-"];
                    fields[2] = pool[t.below(pool.len())].into();
                    text = fields.join(" ");
                }
            }
            5 => {
                if fields.len() > 1 {
                    let pool = ["w", "b", "W", "B", "-", "white", ""];
                    fields[1] = pool[t.below(pool.len())].into();
                    text = fields.join(" ");
                }
            }
            6 | 7 => {
                // replace one character
                let mut cs: Vec<char> = text.chars().collect();
                if !cs.is_empty() {
                    let i = t.below(cs.len());
                    cs[i] = ALPHABET[t.below(ALPHABET.len())];
                    text = cs.into_iter().collect();
                    fields = text.split(' ').map(|s| s.to_string()).collect();
                }
            }
            8 => {
                let mut cs: Vec<char> = text.chars().collect();
                let i = t.below(cs.len() + 1);
                cs.insert(i, ALPHABET[t.below(ALPHABET.len())]);
                text = cs.into_iter().collect();
                fields = text.split(' ').map(|s| s.to_string()).collect();
            }
            9 => {
                let mut cs: Vec<char> = text.chars().collect();
                if !cs.is_empty() {
                    let i = t.below(cs.len());
                    cs.remove(i);
                    text = cs.into_iter().collect();
                    fields = text.split(' ').map(|s| s.to_string()).collect();
                }
            }
            10 => {
                let cs: Vec<char> = text.chars().collect();
                let i = t.below(cs.len() + 1);
                text = cs[..i].iter().collect();
                fields = text.split(' ').map(|s| s.to_string()).collect();
            }
            11 => {
                // splice with another FEN
                let a: Vec<char> = text.chars().collect();
                let b: Vec<char> = other.chars().collect();
                let (i, j) = (t.below(a.len() + 1), t.below(b.len() + 1));
                text = a[..i].iter().chain(b[j..].iter()).collect();
                fields = text.split(' ').map(|s| s.to_string()).collect();
            }
            12 => {
                // move one rank separator / change a digit so that ranks wrap
                text = text.replacen('/', "", 1);
                fields = text.split(' ').map(|s| s.to_string()).collect();
            }
            _ => {
                // add men: replace a digit by that many pieces
                let cs: Vec<char> = text.chars().collect();
                let digits: Vec<usize> = cs.iter().enumerate().filter(|(i, c)| c.is_ascii_digit() && *i < fields[0].len()).map(|(i, _)| i).collect();
                if !digits.is_empty() {
                    let i = digits[t.below(digits.len())];
                    let n = cs[i].to_digit(10).unwrap_or(1) as usize;
                    let pc = ['N', 'n', 'Q', 'q', 'P', 'p', 'R', 'B'][t.below(8)];
                    let mut v: Vec<char> = cs[..i].to_vec();
                    v.extend(std::iter::repeat(pc).take(n));
                    v.extend_from_slice(&cs[i + 1..]);
                    text = v.into_iter().collect();
                    fields = text.split(' ').map(|s| s.to_string()).collect();
                }
            }
        }
    }
    text
}

#[derive(Clone, Debug)]
pub enum Input {
    Tape(Vec<u16>),
    Text(String),
}

pub fn check_tape(ctx: &mut Ctx, tape: &[u16]) -> Result<(), Violation> {
    let mut t = Tape::new(tape);
    match t.below(8) {
        0 | 1 => {
            // valid position: text and builder must both be accepted
            match valid_position(&mut t) {
                Some(p) => {
                    let h = fp(&p);
                    let (half, full) = Pos::clocks_for(h);
                    check_text(ctx, &p.fen_with_clocks(half, full), Some(&p))?;
                    let four: String = p.fen().split(' ').take(4).collect::<Vec<_>>().join(" ");
                    check_text(ctx, &four, Some(&p))?;
                    check_builder(ctx, &state_of(&p), true)
                }
                None => {
                    ctx.reject();
                    Ok(())
                }
            }
        }
        2 | 3 | 4 => {
            let a = valid_position(&mut t);
            let b = valid_position(&mut t);
            match (a, b) {
                (Some(a), Some(b)) => {
                    let text = mutate_fen(&a.fen(), &b.fen(), &mut t);
                    ctx.class("text:mutated-fen");
                    check_text(ctx, &text, None)
                }
                _ => {
                    ctx.reject();
                    Ok(())
                }
            }
        }
        5 => {
            // valid position with builder-level perturbation (extra men, rights, e.p. file)
            match valid_position(&mut t) {
                Some(p) => {
                    let mut st = state_of(&p);
                    for _ in 0..(1 + t.below(20)) {
                        let s = t.below(64);
                        if !matches!(st.squares[s], Some((_, Kind::K))) || t.chance(1, 8) {
                            st.squares[s] = if t.chance(1, 5) { None } else { Some((if t.chance(1, 2) { Col::W } else { Col::B }, KINDS[t.below(6)])) };
                        }
                    }
                    if t.chance(1, 2) {
                        st.ep_file = Some(t.below(8) as u8);
                    }
                    if t.chance(1, 2) {
                        st.castle[t.below(4)] = true;
                    }
                    if t.chance(1, 2) {
                        st.stm = st.stm.other();
                    }
                    ctx.class("builder:perturbed-valid-position");
                    check_builder(ctx, &st, false)?;
                    let sel = fp(&format!("{:?}", st));
                    check_edited_board_builder(ctx, &p, &st, sel)
                }
                None => {
                    ctx.reject();
                    Ok(())
                }
            }
        }
        6 => {
            // plausible but unvalidated: one king each, up to 15 further men a side anywhere
            // (pawns on back ranks, 10 queens, ...), en-passant file pointing at a real pawn
            let mut sq: Vec<Option<(Col, Kind)>> = vec![None; 64];
            let wk = t.below(64);
            sq[wk] = Some((Col::W, Kind::K));
            let cands: Vec<usize> = (0..64).filter(|&s| (s as i32 % 8 - wk as i32 % 8).abs() > 1 || (s as i32 / 8 - wk as i32 / 8).abs() > 1).collect();
            sq[cands[t.below(cands.len())]] = Some((Col::B, Kind::K));
            let heavy = t.chance(1, 2);
            for c in [Col::W, Col::B] {
                let n = if heavy { 8 + t.below(8) } else { t.below(10) };
                for _ in 0..n {
                    let s = t.below(64);
                    if sq[s].is_none() {
                        let k = if t.chance(1, 3) { Kind::P } else { KINDS[t.below(5)] };
                        sq[s] = Some((c, k));
                    }
                }
            }
            let mut st = BuilderState { squares: sq, stm: if t.chance(1, 2) { Col::W } else { Col::B }, castle: [false; 4], ep_file: None };
            let mut p = Pos::empty();
            for (i, x) in st.squares.iter().enumerate() {
                p.board[i] = *x;
            }
            p.stm = st.stm;
            if p.in_check(p.stm.other()) {
                st.stm = st.stm.other();
                p.stm = st.stm;
            }
            for (i, ks, rs, c) in [(WK, E1, H1, Col::W), (WQ, E1, A1, Col::W), (BK, E8, H8, Col::B), (BQ, E8, A8, Col::B)] {
                if p.at(ks) == Some((c, Kind::K)) && p.at(rs) == Some((c, Kind::R)) {
                    st.castle[i] = t.chance(1, 2);
                }
            }
            if t.chance(1, 2) {
                let r = if st.stm == Col::W { 4 } else { 3 };
                let files: Vec<u8> = (0..8u8).filter(|&f| p.at(mk(f as i8, r).unwrap()) == Some((st.stm.other(), Kind::P))).collect();
                if !files.is_empty() {
                    st.ep_file = Some(files[t.below(files.len())]);
                } else if t.chance(1, 4) {
                    st.ep_file = Some(t.below(8) as u8);
                }
            }
            ctx.class("builder:plausible-unvalidated");
            let must = {
                p.castle = st.castle;
                p.ep = st.ep_file.and_then(|f| mk(f as i8, if st.stm == Col::W { 5 } else { 2 }));
                p.validate().is_ok()
            };
            check_builder(ctx, &st, must)?;
            // and the same state as text
            let text = format!("{}", st.build());
            check_text(ctx, &text, None)
        }
        _ => {
            let st = builder_state(&mut t);
            check_builder(ctx, &st, false)
        }
    }
}

pub fn text_strategy() -> impl Strategy<Value = String> {
    prop_oneof![
        3 => "[pnbrqkPNBRQK1-8/]{0,80} [wb-] [KQkq-]{0,5} [a-h1-8-]{0,3}( [0-9]{0,3}){0,2}",
        4 => "([pnbrqkPNBRQK1-8]{1,8}/){7}[pnbrqkPNBRQK1-8]{1,8} [wb] (-|K?Q?k?q?) (-|[a-h][36]) [0-9]{1,2} [0-9]{1,3}",
        3 => "(([1-8]|[kK]|[pnbrqPNBRQ]){1,3}/){7}([1-8]|[kK]|[pnbrqPNBRQ]){1,3} [wb] (-|K?Q?k?q?) (-|[a-h][36])",
        2 => "\\PC{0,100}",
        1 => ".{0,40}",
    ]
}

pub fn run(cfg: &Cfg) -> i32 {
    let report = engine::run_shards(cfg, |shard, ctx, seedf| {
        // golden: every curated position must be accepted in both forms
        for (i, c) in gen::curated().iter().enumerate() {
            if i % cfg.shards == shard {
                engine::run_one(ctx, |ctx| check_text(ctx, &c.pos.fen(), Some(&c.pos)))?;
                engine::run_one(ctx, |ctx| check_builder(ctx, &state_of(&c.pos), true))?;
            }
        }
        // regression input of the repaired defect: crowded board
        if shard == 0 {
            engine::run_one(ctx, |ctx| check_text(ctx, "7k/8/8/NNNN4/NNNNNNNN/NNNNNNNN/8/K7 w - - 0 1", None))?;
            engine::run_one(ctx, |ctx| check_text(ctx, "QQQQQQQk/QQQQQQQ1/QQQQQQQ1/QQQQQQQ1/QQQQQQQ1/QQQQQQQ1/QQQQQQQ1/KQQQQQQ1 w - - 0 1", None))?;
        }
        let tape = proptest::collection::vec(any::<u16>(), 420);
        engine::pbt(ctx, seedf(1), cfg.per_shard(2_000_000, 30_000_000), &tape, |ctx, tp: &Vec<u16>| check_tape(ctx, tp))?;
        let strat = text_strategy();
        engine::pbt(ctx, seedf(2), cfg.per_shard(2_000_000, 30_000_000), &strat, |ctx, t: &String| check_text(ctx, t, None))?;
        Ok(())
    });
    engine::finish(
        report,
        EvidenceSpec {
            rule: "cases = (a) standard FENs (six- and four-field, varying clocks) and square-by-square builder states of valid positions (curated, set up directly, after a few plies): must be accepted and parse to that position; (b) those FENs under 1-3 mutation operators (field swap/drop/duplication, any en-passant square, junk castling/side fields, character replace/insert/delete incl. multi-byte, truncation, splice of two FENs, separator removal, digit replaced by that many men); (c) regex-shaped FEN-like text and arbitrary Unicode; (d) arbitrary builder states (2-64 men, 0-3 kings a side, any rights, any en-passant file) and perturbed valid positions, the latter also as a builder taken from the Board of the valid position and then edited in place through IndexMut / the setters. Every conversion must not panic; every accepted board must satisfy the four acceptance conditions and is exercised: MoveGen (len + iterate), status, to_string, get_hash, null_move, is_sane, make_move_new and make_move of every generated move, and for valid positions one level deeper. evaluations = texts + builder states. Non-trivial = non-standard text that is accepted, or builder state with > 16 men on a side, kings != 1+1 or an en-passant file; distinct = input fingerprints.".into(),
            assumptions: vec![
                "panics, debug assertions (arrayvec capacity, arithmetic overflow) and unsafe-precondition checks of the `checked` profile are the monitors for 'no panic, abort or out-of-bounds access'; the thorough tier adds libFuzzer+ASan targets fen_total / builder_total".into(),
                "reference attack detection for 'side not to move is not in check'".into(),
            ],
            trusted_base: vec!["harness/src/refmodel.rs".into(), "proptest 1.11".into()],
            exhaustive: None,
            extra: json!({"not_asserted": "rejection of positions the statement does not require to be rejected (pawns on back ranks, > 8 pawns, wrapped ranks, odd clocks); legality of moves on accepted-but-invalid boards"}),
        },
    )
}

pub fn replay(ctx: &mut Ctx, case: &Value) -> Result<(), Violation> {
    if let Some(t) = case.get("text").and_then(|t| t.as_str()) {
        let must = Pos::from_fen(t).ok().filter(|p| p.validate().is_ok());
        return check_text(ctx, t, must.as_ref());
    }
    if let Some(b) = case.get("builder") {
        let st = BuilderState::from_json(b).ok_or_else(|| ctx.violation("INFRA", "bad builder case".into(), Value::Null))?;
        let mut p = Pos::empty();
        for (i, s) in st.squares.iter().enumerate() {
            p.board[i] = *s;
        }
        p.stm = st.stm;
        p.castle = st.castle;
        p.ep = st.ep_file.and_then(|f| mk(f as i8, if st.stm == Col::W { 5 } else { 2 }));
        let must = p.validate().is_ok();
        return check_builder(ctx, &st, must);
    }
    if let (Some(f), Some(t)) = (case.get("board_fen").and_then(|x| x.as_str()), case.get("edited_to")) {
        let start = Pos::from_fen(f).map_err(|e| ctx.violation("INFRA", e, Value::Null))?;
        let st = BuilderState::from_json(t).ok_or_else(|| ctx.violation("INFRA", "bad builder case".into(), Value::Null))?;
        let sel = case.get("sel").and_then(|x| x.as_u64()).unwrap_or(0);
        return check_edited_board_builder(ctx, &start, &st, sel);
    }
    Err(ctx.violation("INFRA", "unrecognised C07 case".into(), Value::Null))
}
