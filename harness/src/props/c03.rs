//! C03 — check, pin and occupancy information always matches the actual position; an
//! incrementally reached position equals the same position freshly parsed from its FEN.

use super::common;
use crate::bridge::{self, bb_of, bb_squares, observe, Obs};
use crate::engine::{self, fp, Cfg, Ctx, EvidenceSpec, Violation};
use crate::gen::{self, Step};
use crate::refmodel::*;
use chess::{Board, Color, Piece, ALL_PIECES};
use serde_json::{json, Value};
use std::str::FromStr;

/// All assertions about one (reference position, library board) pair.
pub fn check_board(ctx: &mut Ctx, p: &Pos, b: &Board, how: &str, case: &dyn Fn() -> Value) -> Result<(), Violation> {
    let o: Obs = observe(b);
    if let Some(d) = bridge::obs_vs_pos(&o, p) {
        ctx.fail("board:placement", format!("[{}] {}", how, d), case())?;
    }
    // checkers
    let want_chk = bb_of(&p.checkers());
    if o.checkers != want_chk {
        ctx.fail(
            "board:checkers",
            format!("[{}] checkers() = {:?}, attackers of the mover's king = {:?}", how, bb_squares(o.checkers), bb_squares(want_chk)),
            case(),
        )?;
    }
    // pinned (mover's pieces)
    let own = if p.stm == Col::W { o.white } else { o.black };
    let want_pin = bb_of(&p.pinned());
    if o.pinned & own != want_pin {
        ctx.fail(
            "board:pinned",
            format!("[{}] pinned() & own = {:?}, absolutely pinned = {:?}", how, bb_squares(o.pinned & own), bb_squares(want_pin)),
            case(),
        )?;
    }
    // occupancy consistency
    let mut union = 0u64;
    for (i, x) in o.pieces.iter().enumerate() {
        if union & x != 0 {
            ctx.fail("board:occupancy", format!("[{}] piece bitboards overlap (piece index {})", how, i), case())?;
        }
        union |= x;
    }
    if union != o.combined || o.combined != (o.white | o.black) || o.white & o.black != 0 {
        ctx.fail("board:occupancy", format!("[{}] combined / colour / piece bitboards disagree", how), case())?;
    }
    for s in 0..64u8 {
        let bit = 1u64 << s;
        let from_bb = ALL_PIECES.iter().find(|pc| b.pieces(**pc).0 & bit != 0).map(|pc| bridge::rkind(*pc));
        let col_bb = if o.white & bit != 0 {
            Some(Col::W)
        } else if o.black & bit != 0 {
            Some(Col::B)
        } else {
            None
        };
        let per_sq = o.placement[s as usize];
        let via_bb = match (col_bb, from_bb) {
            (Some(c), Some(k)) => Some((c, k)),
            _ => None,
        };
        if per_sq != via_bb || (b.piece_on(bridge::sq(s)).is_some() != (o.combined & bit != 0)) {
            ctx.fail("board:occupancy", format!("[{}] piece_on/color_on({}) = {:?} but bitboards say {:?}", how, sq_name(s), per_sq, via_bb), case())?;
        }
    }
    for c in [Col::W, Col::B] {
        if let Some(k) = p.king_sq(c) {
            if bridge::rsq(b.king_square(bridge::col(c))) != k {
                ctx.fail("board:king_square", format!("[{}] king_square({:?}) wrong", how, c), case())?;
            }
        }
    }
    let _ = (Color::White, Piece::King);
    Ok(())
}

fn same(ctx: &mut Ctx, a: &Board, b: &Board, sig: &str, what: &str, case: &dyn Fn() -> Value) -> Result<(), Violation> {
    if a != b {
        let d = bridge::obs_diff(&observe(a), &observe(b)).unwrap_or_else(|| "boards differ under == only".into());
        ctx.fail(sig, format!("{}: {}", what, d), case())?;
    } else if let Some(d) = bridge::obs_diff(&observe(a), &observe(b)) {
        ctx.fail(sig, format!("{}: == holds but observables differ: {}", what, d), case())?;
    }
    Ok(())
}

pub fn check_step(ctx: &mut Ctx, s: &Step) -> Result<(), Violation> {
    let p = s.pos;
    let b = s.board;
    ctx.eval();
    let incremental = !s.moves.is_empty();
    let interesting = !p.checkers().is_empty() || !p.pinned().is_empty();
    if interesting {
        ctx.class(if !p.checkers().is_empty() { "pos:in-check" } else { "pos:pinned" });
    }
    if incremental && interesting {
        ctx.nontrivial(fp(p));
    }
    let case = || s.case();
    check_board(ctx, p, b, if incremental { "make_move_new" } else { "from_str" }, &case)?;
    // the same position built from scratch: own FEN, standard FEN, builder
    match Board::from_str(&b.to_string()) {
        Ok(f) => {
            same(ctx, b, &f, "board:incremental-vs-own-fen", "incremental board vs Board::from_str(its own FEN)", &case)?;
        }
        Err(e) => ctx.fail("board:own-fen-rejected", format!("own FEN {:?} rejected: {:?}", b.to_string(), e), case())?,
    }
    match Board::from_str(&p.fen()) {
        Ok(f) => {
            same(ctx, b, &f, "board:incremental-vs-standard-fen", "incremental board vs Board::from_str(standard FEN)", &case)?;
        }
        Err(e) => ctx.fail("board:standard-fen-rejected", format!("standard FEN {:?} rejected: {:?}", p.fen(), e), case())?,
    }
    match bridge::board_via_builder(p) {
        Ok(f) => {
            same(ctx, b, &f, "board:incremental-vs-builder", "incremental board vs BoardBuilder construction", &case)?;
        }
        Err(e) => ctx.fail("board:builder-rejected", format!("builder construction rejected: {}", e), case())?,
    }
    // in-place entry point and null move as further construction paths
    if let Some((pp, pb, m)) = s.prev {
        let mut out = *pb;
        pb.make_move(bridge::mv(m), &mut out);
        check_board(ctx, p, &out, "make_move(in place)", &case)?;
        let _ = pp;
    }
    if p.checkers().is_empty() {
        if let Some(nb) = b.null_move() {
            let mut np = p.clone();
            np.stm = p.stm.other();
            np.ep = None;
            ctx.class("path:null-move");
            let ncase = || s.case_with(json!({"then": "null move"}));
            check_board(ctx, &np, &nb, "null_move", &ncase)?;
            // one real move after the null move (null moves interleaved with real moves)
            let legal = np.legal_moves();
            if !legal.is_empty() {
                let m = legal[(fp(&np) % legal.len() as u64) as usize];
                let nn = np.apply(m);
                let nnb = nb.make_move_new(bridge::mv(m));
                let mcase = || s.case_with(json!({"then": format!("null move, {}", m.uci())}));
                check_board(ctx, &nn, &nnb, "null_move+make_move_new", &mcase)?;
                if let Ok(f) = Board::from_str(&nnb.to_string()) {
                    same(ctx, &nnb, &f, "board:incremental-vs-own-fen", "board after null move and move vs its own FEN", &mcase)?;
                }
                if !nn.checkers().is_empty() || !nn.pinned().is_empty() {
                    ctx.nontrivial(fp(&nn));
                }
            }
        }
    }
    // the deprecated editing API as further construction paths (one position in four)
    if fp(p) % 4 == 0 {
        super::editapi::check_edits(ctx, super::editapi::Mode::Board, p, b, 3, &case)?;
    }
    ctx.sample(|| s.case());
    Ok(())
}

pub fn run(cfg: &Cfg) -> i32 {
    let report = engine::run_shards(cfg, |shard, ctx, seedf| {
        common::golden(cfg, shard, ctx, &check_step)?;
        common::histories(ctx, seedf(1), cfg.per_shard(400_000, 6_000_000), 4, 48, None, &check_step)?;
        Ok(())
    });
    engine::finish(
        report,
        EvidenceSpec {
            rule: "cases = positions on golden and generated histories, each examined as reached by make_move_new, by make_move in place, through null_move (and one further move after it), through the deprecated editing API (set_piece / clear_square on non-king squares, the six castle-rights mutators; one position in four), and rebuilt from its own FEN, from an independent standard FEN and from a BoardBuilder. evaluations = positions. Non-trivial = reached incrementally (>= 1 move) with at least one checker or pinned piece; distinct = distinct position fingerprints.".into(),
            assumptions: vec!["reference attackers()/pinned_of() walk rays square by square from the definitions".into()],
            trusted_base: vec!["harness/src/refmodel.rs".into(), "proptest 1.11".into()],
            exhaustive: None,
            extra: json!({}),
        },
    )
}

pub fn replay(ctx: &mut Ctx, case: &Value) -> Result<(), Violation> {
    common::replay_hist(ctx, case, &check_step)
}
