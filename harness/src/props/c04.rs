//! C04 — status is Checkmate / Stalemate / Ongoing exactly as the rules define.

use super::common;
use crate::engine::{self, fp, Cfg, Ctx, EvidenceSpec, Violation};
use crate::gen::{Policy, Step};
use crate::refmodel::*;
use chess::{BoardStatus, Game, GameResult};
use std::str::FromStr;
use serde_json::{json, Value};

/// What Game::result() must say about a game standing at a position of this status with nothing
/// else recorded: the side to move is the one that is mated.
fn result_for(st: Status, stm: Col) -> Option<GameResult> {
    match st {
        Status::Ongoing => None,
        Status::Stalemate => Some(GameResult::Stalemate),
        Status::Checkmate => Some(if stm == Col::W { GameResult::BlackCheckmates } else { GameResult::WhiteCheckmates }),
    }
}

/// A game that starts at the position (through each constructor in turn).
fn game_at(b: &chess::Board, fen: &str, sel: u64) -> Option<(Game, &'static str)> {
    match sel % 3 {
        0 => Some((Game::new_with_board(*b), "Game::new_with_board")),
        1 => Game::from_str(fen).ok().map(|g| (g, "Game::from_str")),
        _ => {
            #[allow(deprecated)]
            let g = Game::new_from_fen(fen);
            g.map(|g| (g, "Game::new_from_fen"))
        }
    }
}

pub fn check_step(ctx: &mut Ctx, s: &Step) -> Result<(), Violation> {
    let p = s.pos;
    let b = s.board;
    ctx.eval();
    let in_check = p.in_check(p.stm);
    let want = if !s.legal.is_empty() {
        Status::Ongoing
    } else if in_check {
        Status::Checkmate
    } else {
        Status::Stalemate
    };
    let got = match b.status() {
        BoardStatus::Ongoing => Status::Ongoing,
        BoardStatus::Stalemate => Status::Stalemate,
        BoardStatus::Checkmate => Status::Checkmate,
    };
    match want {
        Status::Checkmate => ctx.class("status:checkmate"),
        Status::Stalemate => ctx.class("status:stalemate"),
        Status::Ongoing => {
            if in_check && s.legal.len() == 1 {
                ctx.class("status:in-check-one-reply");
            } else if in_check {
                ctx.class("status:in-check");
            } else if s.legal.len() == 1 {
                ctx.class("status:one-move-no-check");
            }
        }
    }
    if want != Status::Ongoing || (in_check && s.legal.len() == 1) {
        ctx.nontrivial(fp(p));
    }
    if p.ep.is_some() && p.ep_adjacent_pawn() && !p.legal_ep_exists() {
        ctx.class("pos:only-illegal-en-passant");
    }
    if got != want {
        ctx.fail(
            &format!("status:{:?}-reported-as-{:?}", want, got),
            format!("status() = {:?}; rules: in check = {}, legal moves = {} => {:?}", got, in_check, s.legal.len(), want),
            s.case(),
        )?;
    }
    if want != Status::Ongoing {
        ctx.sample(|| s.case_with(json!({"status": format!("{:?}", want)})));
    }
    // the same verdict as a game reports it: a game standing at this position with nothing recorded
    // (every terminal position, and one other position in eight)
    if want != Status::Ongoing || fp(&(p, "game")) % 8 == 0 {
        if let Some((g, how)) = game_at(b, &p.fen(), fp(&(p, "ctor"))) {
            ctx.evals_add(1);
            ctx.class("result:game-standing-at-the-position");
            let gw = result_for(want, p.stm);
            if g.result() != gw {
                ctx.fail(
                    &format!("result:{:?}-reported-as-{:?}", gw, g.result()),
                    format!("{}(..).result() = {:?} for a position whose status is {:?} ({:?} to move)", how, g.result(), want, p.stm),
                    s.case_with(json!({"game_constructor": how})),
                )?;
            }
        }
    }
    // positions obtained from this one by a null move (and back) or through the deprecated editing
    // API are positions too (one position in four)
    if fp(&(p, "c04-ways")) % 4 == 0 {
        for (vp, vb, how) in super::editapi::other_ways(p, b, 2) {
            ctx.evals_add(1);
            let vl = vp.legal_moves();
            let vwant = if !vl.is_empty() {
                Status::Ongoing
            } else if vp.in_check(vp.stm) {
                Status::Checkmate
            } else {
                Status::Stalemate
            };
            let vgot = match vb.status() {
                BoardStatus::Ongoing => Status::Ongoing,
                BoardStatus::Stalemate => Status::Stalemate,
                BoardStatus::Checkmate => Status::Checkmate,
            };
            ctx.class("status:position-obtained-by-null-move-or-editing");
            if vgot != vwant {
                ctx.fail(
                    &format!("status:{:?}-reported-as-{:?}", vwant, vgot),
                    format!("position {:?} obtained through {}: status() = {:?}; rules: in check = {}, legal moves = {} => {:?}", vp.fen(), how, vgot, vp.in_check(vp.stm), vl.len(), vwant),
                    s.case_with(json!({"obtained_through": how, "position_checked": vp.fen()})),
                )?;
            }
        }
    }
    // one ply of look-ahead: the status of every successor as the library reaches it
    // incrementally (make_move_new), so that every available mate, stalemate, en-passant
    // capture and promotion is judged, not only the move the history happens to play
    for &m in s.legal {
        let np = p.apply(m);
        let nb = b.make_move_new(crate::bridge::mv(m));
        ctx.evals_add(1);
        let nl = np.legal_moves();
        let nchk = np.in_check(np.stm);
        let nwant = if !nl.is_empty() {
            Status::Ongoing
        } else if nchk {
            Status::Checkmate
        } else {
            Status::Stalemate
        };
        let ngot = match nb.status() {
            BoardStatus::Ongoing => Status::Ongoing,
            BoardStatus::Stalemate => Status::Stalemate,
            BoardStatus::Checkmate => Status::Checkmate,
        };
        // the same successor through the in-place entry point
        let nb2 = crate::bridge::make_in_place(b, crate::bridge::mv(m), &nb);
        let ngot2 = match nb2.status() {
            BoardStatus::Ongoing => Status::Ongoing,
            BoardStatus::Stalemate => Status::Stalemate,
            BoardStatus::Checkmate => Status::Checkmate,
        };
        if ngot2 != nwant {
            ctx.fail(
                &format!("status:{:?}-reported-as-{:?}", nwant, ngot2),
                format!("after {} (in-place make_move): status() = {:?}; rules: in check = {}, legal moves = {} => {:?}", m.uci(), ngot2, nchk, nl.len(), nwant),
                s.case_with(json!({"then": m.uci(), "entry_point": "make_move"})),
            )?;
        }
        if nwant != Status::Ongoing {
            // the game that ends with this move
            if let Some((mut g, how)) = game_at(b, &p.fen(), fp(&(p, m, "ctor"))) {
                if g.result().is_none() && g.make_move(crate::bridge::mv(m)) {
                    ctx.evals_add(1);
                    ctx.class("result:game-ended-by-the-move");
                    let gw = result_for(nwant, np.stm);
                    if g.result() != gw {
                        ctx.fail(
                            &format!("result:{:?}-reported-as-{:?}", gw, g.result()),
                            format!("{}(..) then make_move({}): result() = {:?}, the position reached is {:?} ({:?} to move)", how, m.uci(), g.result(), nwant, np.stm),
                            s.case_with(json!({"then": m.uci(), "game_constructor": how})),
                        )?;
                    }
                } else {
                    ctx.count("game_refused_legal_move(C10's business)", 1);
                }
            }
            ctx.class(if nwant == Status::Checkmate { "successor:checkmate" } else { "successor:stalemate" });
            ctx.nontrivial(fp(&np));
            if p.is_ep_capture(m) {
                ctx.class("successor:terminal-after-en-passant");
            }
            if m.promo.is_some() {
                ctx.class("successor:terminal-after-promotion");
            }
        }
        if ngot != nwant {
            ctx.fail(
                &format!("status:{:?}-reported-as-{:?}", nwant, ngot),
                format!("after {}: status() = {:?}; rules: in check = {}, legal moves = {} => {:?}", m.uci(), ngot, nchk, nl.len(), nwant),
                s.case_with(json!({"then": m.uci()})),
            )?;
        }
    }
    Ok(())
}

pub const FOUR_MEN: [(Kind, Col, Kind, Col); 6] = [
    (Kind::Q, Col::W, Kind::R, Col::B),
    (Kind::R, Col::W, Kind::R, Col::B),
    (Kind::B, Col::W, Kind::N, Col::W),
    (Kind::P, Col::W, Kind::P, Col::B),
    (Kind::Q, Col::W, Kind::P, Col::B),
    (Kind::N, Col::W, Kind::N, Col::W),
];

/// Selected four-man classes, complete over placements (sharded by white king square).
pub fn enum_four_men(
    shard: usize,
    shards: usize,
    class: (Kind, Col, Kind, Col),
    stride: u64,
    mut f: impl FnMut(&Pos) -> Result<(), Violation>,
) -> Result<(u64, u64), Violation> {
    let (k1, c1, k2, c2) = class;
    let mut raw = 0u64;
    let mut valid = 0u64;
    for wk in 0..64u8 {
        if wk as usize % shards != shard {
            continue;
        }
        for bk in 0..64u8 {
            if bk == wk {
                continue;
            }
            for x in 0..64u8 {
                if x == wk || x == bk {
                    continue;
                }
                for y in 0..64u8 {
                    if y == wk || y == bk || y == x {
                        continue;
                    }
                    if k1 == k2 && c1 == c2 && y < x {
                        continue;
                    }
                    for stm in [Col::W, Col::B] {
                        raw += 1;
                        if raw % stride != 0 {
                            continue;
                        }
                        let mut p = Pos::empty();
                        p.board[wk as usize] = Some((Col::W, Kind::K));
                        p.board[bk as usize] = Some((Col::B, Kind::K));
                        p.board[x as usize] = Some((c1, k1));
                        p.board[y as usize] = Some((c2, k2));
                        p.stm = stm;
                        if p.validate().is_err() {
                            continue;
                        }
                        valid += 1;
                        f(&p)?;
                    }
                }
            }
        }
    }
    Ok((raw, valid))
}

pub fn run(cfg: &Cfg) -> i32 {
    let report = engine::run_shards(cfg, |shard, ctx, seedf| {
        common::golden(cfg, shard, ctx, &check_step)?;
        let kinds = [Kind::Q, Kind::R, Kind::B, Kind::N, Kind::P];
        let (raw, valid) = common::enum_three_men(shard, cfg.shards, &kinds, |p| {
            engine::run_one(ctx, |ctx| common::visit_position(ctx, p, &check_step))
        })?;
        ctx.count("enum3_raw_placements", raw);
        ctx.count("enum3_valid_positions", valid);
        // four-man classes: sampled by stride in quick, complete in thorough
        let stride = cfg.tier.pick(97u64, 1u64);
        for class in FOUR_MEN {
            let (raw, valid) = enum_four_men(shard, cfg.shards, class, stride, |p| {
                engine::run_one(ctx, |ctx| common::visit_position(ctx, p, &check_step))
            })?;
            ctx.count("enum4_raw_placements", raw);
            ctx.count("enum4_valid_positions_checked", valid);
        }
        // planted pattern: en-passant capture landing next to the enemy king (mates, stalemates
        // and plain checks through the capture are otherwise almost never generated)
        let tape = proptest::collection::vec(proptest::prelude::any::<u16>(), 64);
        engine::pbt(ctx, seedf(3), cfg.per_shard(320_000, 4_000_000), &tape, |ctx, tp: &Vec<u16>| {
            match crate::gen::plant_ep_near_king(&mut crate::gen::Tape::new(tp)) {
                Some(p) => {
                    ctx.class("start:planted-en-passant-next-to-king");
                    common::visit_position(ctx, &p, &check_step)
                }
                None => {
                    ctx.reject();
                    Ok(())
                }
            }
        })?;
        // planted pattern: boxed-in king whose side has at most one movable feature (en-passant
        // capture of every legality class, seventh-rank pawn, pinned piece): positions in which one
        // missing or extra move flips the status
        let tape = proptest::collection::vec(proptest::prelude::any::<u16>(), 120);
        engine::pbt(ctx, seedf(4), cfg.per_shard(480_000, 6_000_000), &tape, |ctx, tp: &Vec<u16>| {
            match crate::gen::plant_boxed(&mut crate::gen::Tape::new(tp)) {
                Some((p, tag)) => {
                    ctx.class(tag);
                    let l = p.legal_moves();
                    ctx.class(match l.len() {
                        0 => "boxed:no-legal-move",
                        1 => "boxed:one-legal-move",
                        2 => "boxed:two-legal-moves",
                        _ => "boxed:three-or-more-legal-moves",
                    });
                    if l.len() == 1 && p.is_ep_capture(l[0]) {
                        ctx.class("boxed:only-legal-move-is-en-passant");
                    }
                    if l.len() <= 4 && !l.is_empty() && l.iter().all(|m| m.promo.is_some()) {
                        ctx.class("boxed:only-legal-moves-are-promotions");
                    }
                    common::visit_position(ctx, &p, &check_step)
                }
                None => {
                    ctx.reject();
                    Ok(())
                }
            }
        })?;
        let pol = [Policy::Endgame, Policy::Special, Policy::Uniform];
        common::histories(ctx, seedf(1), cfg.per_shard(40_000, 600_000), 10, 120, Some(&pol), &check_step)?;
        Ok(())
    });
    let exhaustive4 = cfg.tier == engine::Tier::Thorough;
    engine::finish(
        report,
        EvidenceSpec {
            rule: "cases = positions: complete enumeration of K+X v K (X in Q,R,B,N,P; either colour; either side to move), six four-man classes (KQvKR, KRvKR, KBNvK, KPvKP, KQvKP, KNNvK: every 97th placement in quick, all in thorough), curated mates/stalemates and their neighbours, planted positions in which an en-passant capture lands diagonally next to the enemy king amid crowded pieces, planted low-mobility positions (king boxed in by enemy attacks plus one movable feature: an en-passant capture that is free / pinned along the capture diagonal / pinned off it / in the rank pattern / the only evasion of the pushed pawn's check, a seventh-rank pawn, a pinned piece, or nothing), and every position of long generated histories (capture-seeking, special-move-seeking and uniform policies, up to 120 plies). at every position the status of every successor reached through make_move_new and through the in-place make_move is judged as well (one ply of look-ahead). evaluations = positions + successors. Non-trivial = terminal position, or in check with exactly one legal reply; distinct = position fingerprints. Game::result() is asked too: of a game standing at every terminal position and at one other position in eight - built through each Game constructor in turn - and of the game that ends with each mating or stalemating move.".into(),
            assumptions: vec!["reference in_check and legal_moves".into()],
            trusted_base: vec!["harness/src/refmodel.rs".into(), "proptest 1.11".into()],
            exhaustive: None,
            extra: json!({"exhaustive_subdomain": if exhaustive4 { "all valid K+X v K positions and all valid positions of the six four-man classes" } else { "all valid K+X v K positions" }}),
        },
    )
}

pub fn replay(ctx: &mut Ctx, case: &Value) -> Result<(), Violation> {
    common::replay_hist(ctx, case, &check_step)
}
