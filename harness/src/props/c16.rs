//! C16 — board geometry tables and square arithmetic are exact (complete enumeration; blocker
//! arguments by enumeration of the relevant squares plus generated noise).

use crate::engine::{self, fp, Cfg, Ctx, EvidenceSpec, Violation};
use crate::refmodel::{file_of, mk, rank_of, sq_name, Sq};
use chess::{
    between, get_adjacent_files, get_bishop_rays, get_file, get_king_moves, get_knight_moves, get_pawn_attacks, get_pawn_moves, get_pawn_quiets, get_rank,
    get_rook_rays, line, BitBoard, Color, File, Rank, Square, ALL_COLORS, ALL_FILES, ALL_RANKS, ALL_SQUARES, EDGES,
};
use proptest::prelude::*;
use serde_json::{json, Value};

const NAMED: [Square; 64] = [
    Square::A1, Square::B1, Square::C1, Square::D1, Square::E1, Square::F1, Square::G1, Square::H1, Square::A2, Square::B2, Square::C2, Square::D2,
    Square::E2, Square::F2, Square::G2, Square::H2, Square::A3, Square::B3, Square::C3, Square::D3, Square::E3, Square::F3, Square::G3, Square::H3,
    Square::A4, Square::B4, Square::C4, Square::D4, Square::E4, Square::F4, Square::G4, Square::H4, Square::A5, Square::B5, Square::C5, Square::D5,
    Square::E5, Square::F5, Square::G5, Square::H5, Square::A6, Square::B6, Square::C6, Square::D6, Square::E6, Square::F6, Square::G6, Square::H6,
    Square::A7, Square::B7, Square::C7, Square::D7, Square::E7, Square::F7, Square::G7, Square::H7, Square::A8, Square::B8, Square::C8, Square::D8,
    Square::E8, Square::F8, Square::G8, Square::H8,
];

fn q(s: Sq) -> Square {
    Square::new(s)
}
fn bit(s: Sq) -> u64 {
    1u64 << s
}
fn opt(f: i8, r: i8) -> u64 {
    mk(f, r).map(bit).unwrap_or(0)
}
fn sqs(b: u64) -> Vec<String> {
    (0..64u8).filter(|s| b >> s & 1 == 1).map(sq_name).collect()
}

fn o_between(a: Sq, b: Sq) -> u64 {
    let (df, dr) = (file_of(b) - file_of(a), rank_of(b) - rank_of(a));
    if a == b || !(df == 0 || dr == 0 || df.abs() == dr.abs()) {
        return 0;
    }
    let (sf, sr) = (df.signum(), dr.signum());
    let mut out = 0;
    let (mut f, mut r) = (file_of(a) + sf, rank_of(a) + sr);
    while (f, r) != (file_of(b), rank_of(b)) {
        out |= opt(f, r);
        f += sf;
        r += sr;
    }
    out
}
fn o_line(a: Sq, b: Sq) -> Option<u64> {
    let (df, dr) = (file_of(b) - file_of(a), rank_of(b) - rank_of(a));
    if a == b || !(df == 0 || dr == 0 || df.abs() == dr.abs()) {
        return None;
    }
    let (sf, sr) = (df.signum(), dr.signum());
    let mut out = bit(a);
    for dir in [1i8, -1] {
        let (mut f, mut r) = (file_of(a) + dir * sf, rank_of(a) + dir * sr);
        while let Some(s) = mk(f, r) {
            out |= bit(s);
            f += dir * sf;
            r += dir * sr;
        }
    }
    Some(out)
}
fn o_rays(a: Sq, diag: bool) -> u64 {
    let dirs: [(i8, i8); 4] = if diag { [(1, 1), (1, -1), (-1, 1), (-1, -1)] } else { [(1, 0), (-1, 0), (0, 1), (0, -1)] };
    let mut out = 0;
    for (df, dr) in dirs {
        let (mut f, mut r) = (file_of(a) + df, rank_of(a) + dr);
        while let Some(s) = mk(f, r) {
            out |= bit(s);
            f += df;
            r += dr;
        }
    }
    out
}
fn o_king(a: Sq) -> u64 {
    let mut out = 0;
    for df in -1..=1 {
        for dr in -1..=1 {
            if (df, dr) != (0, 0) {
                out |= opt(file_of(a) + df, rank_of(a) + dr);
            }
        }
    }
    out
}
fn o_knight(a: Sq) -> u64 {
    let mut out = 0;
    for (df, dr) in [(1, 2), (2, 1), (2, -1), (1, -2), (-1, -2), (-2, -1), (-2, 1), (-1, 2)] {
        out |= opt(file_of(a) + df, rank_of(a) + dr);
    }
    out
}
fn dir_of(c: Color) -> i8 {
    if c == Color::White {
        1
    } else {
        -1
    }
}
fn o_pawn_attack_squares(a: Sq, c: Color) -> u64 {
    opt(file_of(a) - 1, rank_of(a) + dir_of(c)) | opt(file_of(a) + 1, rank_of(a) + dir_of(c))
}
fn o_pawn_quiets(a: Sq, c: Color, blockers: u64) -> u64 {
    let d = dir_of(c);
    let start = if c == Color::White { 1 } else { 6 };
    let one = opt(file_of(a), rank_of(a) + d);
    if one == 0 || one & blockers != 0 {
        return 0;
    }
    let mut out = one;
    if rank_of(a) == start {
        let two = opt(file_of(a), rank_of(a) + 2 * d);
        if two & blockers == 0 {
            out |= two;
        }
    }
    out
}

macro_rules! want {
    ($ctx:expr, $sig:expr, $got:expr, $exp:expr, $($arg:tt)*) => {
        if $got != $exp {
            let what = format!($($arg)*);
            $ctx.fail($sig, format!("{}: got {:?}, expected {:?}", what, $got, $exp), json!({"call": what}))?;
        }
    };
}

/// The argument-free part: every table entry and helper, completely enumerated.
pub fn check_tables(ctx: &mut Ctx, shard: usize, shards: usize) -> Result<(), Violation> {
    for a in 0..64u8 {
        if a as usize % shards != shard {
            continue;
        }
        ctx.set_case(json!({"square": sq_name(a)}));
        let sa = q(a);
        // identity of squares and conversions
        want!(ctx, "square:conversions", sa.to_index(), a as usize, "Square::new({}).to_index()", a);
        want!(ctx, "square:conversions", sa.to_int(), a, "Square::new({}).to_int()", a);
        want!(ctx, "square:conversions", sa.get_rank().to_index(), (a / 8) as usize, "{}.get_rank()", sq_name(a));
        want!(ctx, "square:conversions", sa.get_file().to_index(), (a % 8) as usize, "{}.get_file()", sq_name(a));
        want!(ctx, "square:conversions", Square::make_square(Rank::from_index((a / 8) as usize), File::from_index((a % 8) as usize)), sa, "make_square for {}", sq_name(a));
        want!(ctx, "square:conversions", ALL_SQUARES[a as usize], sa, "ALL_SQUARES[{}]", a);
        want!(ctx, "square:constants", NAMED[a as usize], sa, "Square::{}", sq_name(a).to_uppercase());
        want!(ctx, "square:conversions", format!("{}", sa), sq_name(a), "Display of square {}", a);
        want!(ctx, "square:conversions", BitBoard::from_square(sa).0, bit(a), "BitBoard::from_square({})", sq_name(a));
        ctx.evals_add(12);
        // stepping helpers
        let (f, r) = (file_of(a), rank_of(a));
        let o = |f: i8, r: i8| mk(f, r).map(q);
        let w = |f: i8, r: i8| q((((r + 8) % 8) * 8 + (f + 8) % 8) as u8);
        want!(ctx, "square:step", sa.up(), o(f, r + 1), "{}.up()", sq_name(a));
        want!(ctx, "square:step", sa.down(), o(f, r - 1), "{}.down()", sq_name(a));
        want!(ctx, "square:step", sa.left(), o(f - 1, r), "{}.left()", sq_name(a));
        want!(ctx, "square:step", sa.right(), o(f + 1, r), "{}.right()", sq_name(a));
        want!(ctx, "square:step", sa.uup(), w(f, r + 1), "{}.uup()", sq_name(a));
        want!(ctx, "square:step", sa.udown(), w(f, r - 1), "{}.udown()", sq_name(a));
        want!(ctx, "square:step", sa.uleft(), w(f - 1, r), "{}.uleft()", sq_name(a));
        want!(ctx, "square:step", sa.uright(), w(f + 1, r), "{}.uright()", sq_name(a));
        for c in ALL_COLORS {
            let d = dir_of(c);
            want!(ctx, "square:step", sa.forward(c), o(f, r + d), "{}.forward({:?})", sq_name(a), c);
            want!(ctx, "square:step", sa.backward(c), o(f, r - d), "{}.backward({:?})", sq_name(a), c);
            want!(ctx, "square:step", sa.uforward(c), w(f, r + d), "{}.uforward({:?})", sq_name(a), c);
            want!(ctx, "square:step", sa.ubackward(c), w(f, r - d), "{}.ubackward({:?})", sq_name(a), c);
        }
        ctx.evals_add(16);
        // leaper tables and rays
        want!(ctx, "table:king", sqs(get_king_moves(sa).0), sqs(o_king(a)), "get_king_moves({})", sq_name(a));
        want!(ctx, "table:knight", sqs(get_knight_moves(sa).0), sqs(o_knight(a)), "get_knight_moves({})", sq_name(a));
        want!(ctx, "table:rays", sqs(get_rook_rays(sa).0), sqs(o_rays(a, false)), "get_rook_rays({})", sq_name(a));
        want!(ctx, "table:rays", sqs(get_bishop_rays(sa).0), sqs(o_rays(a, true)), "get_bishop_rays({})", sq_name(a));
        ctx.evals_add(4);
        // pairs
        for b in 0..64u8 {
            let sb = q(b);
            ctx.evals_add(1);
            let aligned = o_line(a, b).is_some();
            if aligned {
                ctx.class("pair:aligned");
                ctx.nontrivial(fp(&(a, b)));
            } else {
                ctx.class("pair:not-aligned");
            }
            want!(ctx, "table:between", sqs(between(sa, sb).0), sqs(o_between(a, b)), "between({}, {})", sq_name(a), sq_name(b));
            if let Some(l) = o_line(a, b) {
                want!(ctx, "table:line", sqs(line(sa, sb).0), sqs(l), "line({}, {})", sq_name(a), sq_name(b));
            } else {
                let _ = line(sa, sb); // not defined by the statement; must not crash
            }
        }
    }
    if shard == 0 {
        ctx.set_case(json!({"tables": "ranks, files, colours"}));
        for i in 0..8usize {
            let rank_bb: u64 = (0..8).fold(0, |x, f| x | bit((i * 8 + f) as u8));
            let file_bb: u64 = (0..8).fold(0, |x, r| x | bit((r * 8 + i) as u8));
            want!(ctx, "table:rank-file", get_rank(Rank::from_index(i)).0, rank_bb, "get_rank({})", i);
            want!(ctx, "table:rank-file", get_file(File::from_index(i)).0, file_bb, "get_file({})", i);
            let mut adj = 0u64;
            for j in [i as i8 - 1, i as i8 + 1] {
                if (0..8).contains(&j) {
                    adj |= (0..8).fold(0, |x, r| x | bit((r * 8 + j as usize) as u8));
                }
            }
            want!(ctx, "table:adjacent-files", get_adjacent_files(File::from_index(i)).0, adj, "get_adjacent_files({})", i);
            want!(ctx, "enum:all", ALL_RANKS[i].to_index(), i, "ALL_RANKS[{}]", i);
            want!(ctx, "enum:all", ALL_FILES[i].to_index(), i, "ALL_FILES[{}]", i);
            want!(ctx, "enum:from_index", Rank::from_index(i).to_index(), i, "Rank::from_index({})", i);
            want!(ctx, "enum:from_index", File::from_index(i).to_index(), i, "File::from_index({})", i);
            want!(ctx, "enum:step", Rank::from_index(i).up().to_index(), (i + 1) % 8, "Rank {}.up()", i);
            want!(ctx, "enum:step", Rank::from_index(i).down().to_index(), (i + 7) % 8, "Rank {}.down()", i);
            want!(ctx, "enum:step", File::from_index(i).right().to_index(), (i + 1) % 8, "File {}.right()", i);
            want!(ctx, "enum:step", File::from_index(i).left().to_index(), (i + 7) % 8, "File {}.left()", i);
            ctx.evals_add(12);
        }
        let edges: u64 = (0..64u8).filter(|s| file_of(*s) == 0 || file_of(*s) == 7 || rank_of(*s) == 0 || rank_of(*s) == 7).fold(0, |x, s| x | bit(s));
        want!(ctx, "table:edges", EDGES.0, edges, "EDGES");
        use Color::*;
        want!(ctx, "colour:ranks", (White.to_my_backrank().to_index(), Black.to_my_backrank().to_index()), (0, 7), "to_my_backrank");
        want!(ctx, "colour:ranks", (White.to_their_backrank().to_index(), Black.to_their_backrank().to_index()), (7, 0), "to_their_backrank");
        want!(ctx, "colour:ranks", (White.to_second_rank().to_index(), Black.to_second_rank().to_index()), (1, 6), "to_second_rank");
        want!(ctx, "colour:ranks", (White.to_fourth_rank().to_index(), Black.to_fourth_rank().to_index()), (3, 4), "to_fourth_rank");
        want!(ctx, "colour:ranks", (White.to_seventh_rank().to_index(), Black.to_seventh_rank().to_index()), (6, 1), "to_seventh_rank");
        want!(ctx, "colour:not", (!White, !Black), (Black, White), "!colour");
        want!(ctx, "colour:index", (White.to_index(), Black.to_index()), (0, 1), "Color::to_index");
        ctx.evals_add(8);
    }
    Ok(())
}

/// Pawn functions: all 16 patterns of the four relevant squares x generated noise elsewhere.
pub fn check_pawns(ctx: &mut Ctx, noise: &[u64]) -> Result<(), Violation> {
    for a in 0..64u8 {
        let sa = q(a);
        for c in ALL_COLORS {
            let d = dir_of(c);
            let (f, r) = (file_of(a), rank_of(a));
            let rel = [opt(f - 1, r + d), opt(f + 1, r + d), opt(f, r + d), opt(f, r + 2 * d)];
            let relmask = rel.iter().fold(0, |x, y| x | y) | bit(a);
            let defined = (1..=6).contains(&r);
            for pat in 0..16u32 {
                for (j, nz) in noise.iter().enumerate() {
                    let mut bl = nz & !relmask;
                    for (i, m) in rel.iter().enumerate() {
                        if pat >> i & 1 == 1 {
                            bl |= m;
                        }
                    }
                    // the pawn's own square is normally part of the occupancy
                    if j % 2 == 0 {
                        bl |= bit(a);
                    }
                    ctx.evals_add(1);
                    let call = || json!({"square": sq_name(a), "colour": format!("{:?}", c), "blockers": format!("{:#018x}", bl)});
                    ctx.set_case(call());
                    let att = get_pawn_attacks(sa, c, BitBoard::new(bl)).0;
                    let qui = get_pawn_quiets(sa, c, BitBoard::new(bl)).0;
                    let all = get_pawn_moves(sa, c, BitBoard::new(bl)).0;
                    if !defined {
                        // first / last rank: no pawn can stand there, but the attack table is also
                        // used from king squares, and the movement rule still defines the sets
                        // (nothing beyond the board edge, no double step)
                        ctx.class("pawn:on-first-or-last-rank");
                    }
                    if pat != 0 {
                        ctx.nontrivial(fp(&(a, c == Color::White, pat, j as u64 % 2)));
                    }
                    ctx.class("pawn:defined-square");
                    let e_att = o_pawn_attack_squares(a, c) & bl;
                    let e_qui = o_pawn_quiets(a, c, bl);
                    if att != e_att {
                        ctx.fail("table:pawn-attacks", format!("get_pawn_attacks({}, {:?}, {:#x}) = {:?}, expected {:?}", sq_name(a), c, bl, sqs(att), sqs(e_att)), call())?;
                    }
                    if qui != e_qui {
                        ctx.fail("table:pawn-quiets", format!("get_pawn_quiets({}, {:?}, {:#x}) = {:?}, expected {:?}", sq_name(a), c, bl, sqs(qui), sqs(e_qui)), call())?;
                    }
                    if all != e_att | e_qui {
                        ctx.fail("table:pawn-moves", format!("get_pawn_moves({}, {:?}, {:#x}) = {:?}, expected {:?}", sq_name(a), c, bl, sqs(all), sqs(e_att | e_qui)), call())?;
                    }
                }
            }
        }
    }
    Ok(())
}

pub fn run(cfg: &Cfg) -> i32 {
    let report = engine::run_shards(cfg, |shard, ctx, seedf| {
        engine::run_one(ctx, |ctx| check_tables(ctx, shard, cfg.shards))?;
        // fixed fillings first, then generated noise
        if shard == 0 {
            engine::run_one(ctx, |ctx| check_pawns(ctx, &[0, !0, 0x5555_5555_5555_5555, 0xAAAA_AAAA_AAAA_AAAA]))?;
        }
        let strat = proptest::collection::vec(any::<u64>(), 8);
        engine::pbt(ctx, seedf(1), cfg.per_shard(64, 1600), &strat, |ctx, noise: &Vec<u64>| check_pawns(ctx, noise))?;
        ctx.sample(|| json!({"enumerated": "64 squares, 64x64 pairs, 2 colours, 8 ranks, 8 files, all step helpers; pawn functions: 64 squares x 2 colours x 16 relevant-square patterns x noise"}));
        Ok(())
    });
    engine::finish(
        report,
        EvidenceSpec {
            rule: "cases = every argument of every exported geometry function: 64 squares (conversions, named constants, Display, 12 step helpers incl. wrapping variants, king/knight tables, rook/bishop rays), 64x64 pairs (between for all, line for aligned distinct pairs), 8 ranks/files (masks, adjacent files, from_index, wrapping up/down/left/right), colours; pawn attacks/quiets/moves for 64 squares x 2 colours x all 16 occupancy patterns of the four relevant squares x generated noise on the other squares (all 64 squares, including the first and last rank where the sets are what the movement rule leaves on the board). evaluations = function results compared. Non-trivial = aligned pair, or pawn call with at least one relevant square occupied; distinct = argument fingerprints.".into(),
            assumptions: vec!["coordinate arithmetic oracle written from the definitions (file = index mod 8, rank = index div 8)".into()],
            trusted_base: vec!["harness/src/props/c16.rs oracle functions".into(), "proptest 1.11 (noise)".into()],
            exhaustive: Some(true),
            extra: json!({"exhaustive_note": "complete over squares, pairs, colours, ranks, files and relevant-square patterns; noise on irrelevant squares is sampled"}),
        },
    )
}

pub fn replay(ctx: &mut Ctx, case: &Value) -> Result<(), Violation> {
    if let Some(b) = case.get("blockers").and_then(|b| b.as_str()) {
        let bl = u64::from_str_radix(b.trim_start_matches("0x"), 16).unwrap_or(0);
        return check_pawns(ctx, &[bl]);
    }
    check_tables(ctx, 0, 1)
}
