//! One module per property: generator wiring, check function, classifier, replay decoder.

use crate::engine::{self, Cfg, Ctx, Known, Violation};
use serde_json::Value;
use std::sync::Arc;

pub mod c01;
pub mod c02;
pub mod c03;
pub mod c04;
pub mod c05;
pub mod c06;
pub mod c07;
pub mod c08;
pub mod c09;
pub mod c10;
pub mod c11;
pub mod c12;
pub mod c13;
pub mod c14;
pub mod c15;
pub mod c16;
pub mod c17;
pub mod c18;
pub mod c19;
pub mod c20;
pub mod common;
pub mod editapi;

pub fn run(cfg: &Cfg) -> i32 {
    match cfg.id.as_str() {
        "C01" => c01::run(cfg),
        "C02" => c02::run(cfg),
        "C03" => c03::run(cfg),
        "C04" => c04::run(cfg),
        "C05" => c05::run(cfg),
        "C06" => c06::run(cfg),
        "C07" => c07::run(cfg),
        "C08" => c08::run(cfg),
        "C09" => c09::run(cfg),
        "C10" => c10::run(cfg),
        "C11" => c11::run(cfg),
        "C12" => c12::run(cfg),
        "C13" => c13::run(cfg),
        "C14" => c14::run(cfg),
        "C15" => c15::run(cfg),
        "C16" => c16::run(cfg),
        "C17" => c17::run(cfg),
        "C18" => c18::run(cfg),
        "C19" => c19::run(cfg),
        "C20" => c20::run(cfg),
        other => {
            eprintln!("INCONCLUSIVE unknown property {}", other);
            2
        }
    }
}

pub fn replay_case(prop: &str, ctx: &mut Ctx, case: &Value) -> Result<(), Violation> {
    match prop {
        "C01" => c01::replay(ctx, case),
        "C02" => c02::replay(ctx, case),
        "C03" => c03::replay(ctx, case),
        "C04" => c04::replay(ctx, case),
        "C05" => c05::replay(ctx, case),
        "C06" => c06::replay(ctx, case),
        "C07" => c07::replay(ctx, case),
        "C08" => c08::replay(ctx, case),
        "C09" => c09::replay(ctx, case),
        "C10" => c10::replay(ctx, case),
        "C11" => c11::replay(ctx, case),
        "C12" => c12::replay(ctx, case),
        "C13" => c13::replay(ctx, case),
        "C14" => c14::replay(ctx, case),
        "C15" => c15::replay(ctx, case),
        "C16" => c16::replay(ctx, case),
        "C17" => c17::replay(ctx, case),
        "C18" => c18::replay(ctx, case),
        "C19" => c19::replay(ctx, case),
        "C20" => c20::replay(ctx, case),
        _ => Err(ctx.violation("INFRA", format!("unknown property {}", prop), Value::Null)),
    }
}

/// Re-run a replay file.  Exit 1 + VIOLATION line if the case still fails, 0 if it passes.
pub fn replay_file(root: &str, path: &str) -> i32 {
    let text = match std::fs::read_to_string(path) {
        Ok(t) => t,
        Err(e) => {
            eprintln!("cannot read {}: {}", path, e);
            return 2;
        }
    };
    let v: Value = match serde_json::from_str(&text) {
        Ok(v) => v,
        Err(e) => {
            eprintln!("cannot parse {}: {}", path, e);
            return 2;
        }
    };
    let prop = v["property"].as_str().unwrap_or("").to_string();
    let mut ctx = Ctx::new(&prop, engine::Tier::Quick, Arc::new(Known::load(root)));
    ctx.frozen = true;
    let case = v["case"].clone();
    let r = engine::run_one(&mut ctx, |c| replay_case(&prop, c, &case));
    match r {
        Ok(()) => {
            println!("replay property={} file={} : passes", prop, path);
            0
        }
        Err(viol) if viol.sig == "INFRA" => {
            eprintln!("INCONCLUSIVE {}", viol.what);
            2
        }
        Err(viol) => {
            println!("VIOLATION property={} replay={}", prop, path);
            println!("  signature={} :: {}", viol.sig, viol.what);
            1
        }
    }
}
