//! C19 — CacheTable returns only what was stored under exactly that hash (model-based,
//! operation sequences against a vector model).

use crate::engine::{self, fp, guarded, Cfg, Ctx, EvidenceSpec, Violation};
use chess::CacheTable;
use proptest::prelude::*;
use serde_json::{json, Value};

#[derive(Clone, Copy, PartialEq, PartialOrd, Debug, Default)]
pub struct Pair {
    a: i16,
    b: u8,
}

/// An entry whose `==` / ordering look at the key only (the way a transposition-table entry is
/// compared by depth): equality is coarser than identity, so values are compared by `bits()`.
#[derive(Clone, Copy, Debug, Default)]
pub struct Coarse {
    key: i16,
    payload: u16,
}
impl PartialEq for Coarse {
    fn eq(&self, o: &Coarse) -> bool {
        self.key == o.key
    }
}
impl PartialOrd for Coarse {
    fn partial_cmp(&self, o: &Coarse) -> Option<std::cmp::Ordering> {
        self.key.partial_cmp(&o.key)
    }
}

pub trait Val: Copy + PartialEq + PartialOrd + std::fmt::Debug {
    fn of(v: u32) -> Self;
    /// identity of the value (what was written must come back bit for bit)
    fn bits(&self) -> u64;
}
impl Val for u8 {
    fn of(v: u32) -> u8 {
        v as u8
    }
    fn bits(&self) -> u64 {
        *self as u64
    }
}
impl Val for u32 {
    fn of(v: u32) -> u32 {
        v
    }
    fn bits(&self) -> u64 {
        *self as u64
    }
}
impl Val for Pair {
    fn of(v: u32) -> Pair {
        Pair { a: v as i16, b: (v >> 16) as u8 }
    }
    fn bits(&self) -> u64 {
        (self.a as u16 as u64) | (self.b as u64) << 16
    }
}
impl Val for Coarse {
    fn of(v: u32) -> Coarse {
        // small keys (so that predicates fire and refuse), payload from the upper bits; key 0 with
        // a non-zero payload is a value that `==` cannot tell from the all-zero one
        Coarse { key: (v % 8) as i16, payload: ((v >> 3) as u16) | 0x8000 }
    }
    fn bits(&self) -> u64 {
        (self.key as u16 as u64) | (self.payload as u64) << 16
    }
}
/// Entries wider than a machine word: with the 8-byte hash beside them the slots are 24, 24 and 48
/// bytes, none of them a power of two.
#[derive(Clone, Copy, Debug, PartialEq, PartialOrd)]
pub struct Wide(pub u64, pub u64);
#[derive(Clone, Copy, Debug, PartialEq, PartialOrd)]
pub struct Tri(pub [u32; 3]);
#[derive(Clone, Copy, Debug, PartialEq, PartialOrd)]
pub struct Big(pub [u64; 5]);
fn mix(words: &[u64]) -> u64 {
    words.iter().fold(0x9E37_79B9_7F4A_7C15u64, |a, w| (a ^ w).wrapping_mul(0xFF51_AFD7_ED55_8CCD).rotate_left(29))
}
impl Val for Wide {
    fn of(v: u32) -> Wide {
        Wide((v % 8) as u64, (v as u64).wrapping_mul(0x0101_0101_0101_0101) | 1 << 63)
    }
    fn bits(&self) -> u64 {
        mix(&[self.0, self.1])
    }
}
impl Val for Tri {
    fn of(v: u32) -> Tri {
        Tri([v % 8, v.rotate_left(7) | 0x8000_0000, !v])
    }
    fn bits(&self) -> u64 {
        mix(&[self.0[0] as u64, self.0[1] as u64, self.0[2] as u64])
    }
}
impl Val for Big {
    fn of(v: u32) -> Big {
        let x = v as u64;
        Big([x % 8, x << 32 | 0xA5, !x, x.wrapping_mul(0x9E37_79B9), x ^ 0xFFFF_0000_FFFF_0000])
    }
    fn bits(&self) -> u64 {
        mix(&self.0)
    }
}
impl Val for f64 {
    fn of(v: u32) -> f64 {
        // includes -0.0 (v = 0), which == cannot tell from the all-zero bit pattern +0.0, and NaN
        // (two bit patterns), which == cannot even tell to be itself
        match v % 16 {
            0 | 8 => -0.0,
            7 => f64::NAN,
            15 => f64::from_bits(0x7ff8_0000_0000_0001),
            k => (k % 8) as f64,
        }
    }
    fn bits(&self) -> u64 {
        self.to_bits()
    }
}

pub const TYPES: [&str; 8] = ["u8", "u32", "Pair{i16,u8}", "Coarse{key,payload}(== on key only)", "f64", "Wide(u64,u64)", "Tri([u32;3])", "Big([u64;5])"];

#[derive(Clone, Debug)]
pub enum Op {
    Add(u64, u32),
    /// hash, new value, predicate kind, predicate argument
    ReplaceIf(u64, u32, u8, u32),
    Get(u64),
}

#[derive(Clone, Debug)]
pub struct Program {
    pub log2: u8,
    pub ty: u8,
    pub default: u32,
    pub ops: Vec<Op>,
}

fn pred<T: Val>(kind: u8, arg: u32) -> impl Fn(T) -> bool {
    let a = T::of(arg);
    move |old: T| match kind % 5 {
        0 => old < a,
        1 => old == a,
        2 => true,
        3 => false,
        // a predicate that never answers: it unwinds instead (the write must not have happened)
        _ => panic!("predicate unwinds"),
    }
}

impl Program {
    pub fn to_json(&self) -> Value {
        let ty = TYPES[self.ty as usize % TYPES.len()];
        json!({
            "size_log2": self.log2,
            "entry_type": ty,
            "default": self.default,
            "ops": self.ops.iter().map(|o| match o {
                Op::Add(h, v) => json!(["add", format!("{:#x}", h), v]),
                Op::ReplaceIf(h, v, k, a) => {
                    let pk = ["old<arg", "old==arg", "true", "false", "panics"][*k as usize % 5];
                    json!(["replace_if", format!("{:#x}", h), v, pk, a])
                }
                Op::Get(h) => json!(["get", format!("{:#x}", h)]),
            }).collect::<Vec<_>>(),
        })
    }
    pub fn from_json(v: &Value) -> Option<Program> {
        let hx = |x: &Value| x.as_str().and_then(|s| u64::from_str_radix(s.trim_start_matches("0x"), 16).ok());
        let ty = match v["entry_type"].as_str()? {
            "u8" => 0,
            "u32" => 1,
            "f64" => 4,
            "Wide(u64,u64)" => 5,
            "Tri([u32;3])" => 6,
            "Big([u64;5])" => 7,
            t if t.starts_with("Coarse") => 3,
            _ => 2,
        };
        let mut ops = vec![];
        for o in v["ops"].as_array()? {
            let a = o.as_array()?;
            ops.push(match a[0].as_str()? {
                "add" => Op::Add(hx(&a[1])?, a[2].as_u64()? as u32),
                "get" => Op::Get(hx(&a[1])?),
                _ => {
                    let k = ["old<arg", "old==arg", "true", "false", "panics"].iter().position(|x| Some(*x) == a[3].as_str())? as u8;
                    Op::ReplaceIf(hx(&a[1])?, a[2].as_u64()? as u32, k, a[4].as_u64()? as u32)
                }
            });
        }
        Some(Program { log2: v["size_log2"].as_u64()? as u8, ty, default: v["default"].as_u64()? as u32, ops })
    }
}

fn run_typed<T: Val>(ctx: &mut Ctx, p: &Program) -> Result<(), Violation> {
    let size = 1usize << p.log2;
    let case = || p.to_json();
    let def = T::of(p.default);
    let mut table: CacheTable<T> = match guarded(|| CacheTable::new(size, def)) {
        Ok(t) => t,
        Err(e) => return ctx.fail("cache:new-panics-on-power-of-two", format!("CacheTable::new({}) panicked: {}", size, e), case()),
    };
    let mut model: Vec<(u64, T)> = vec![(0u64, def); size];
    let slot = |h: u64| (h % size as u64) as usize;
    let mut touched: Vec<u64> = vec![];
    let (mut overwrites, mut refused) = (0, 0);
    // longest run of consecutive refused conditional writes to one slot (no write in between)
    let mut runs: std::collections::HashMap<usize, u32> = std::collections::HashMap::new();
    let mut longest_run = 0u32;
    for (i, op) in p.ops.iter().enumerate() {
        match *op {
            Op::Add(h, v) => {
                let s = slot(h);
                if model[s].0 != h && (model[s].0 != 0 || model[s].1 != def) {
                    overwrites += 1;
                }
                table.add(h, T::of(v));
                model[s] = (h, T::of(v));
                runs.remove(&s);
                touched.push(h);
            }
            Op::ReplaceIf(h, v, k, a) => {
                let s = slot(h);
                let fire = if k % 5 == 4 {
                    // the predicate unwinds: it never said "true", so nothing may be written
                    let r = std::panic::catch_unwind(std::panic::AssertUnwindSafe(|| table.replace_if(h, T::of(v), pred::<T>(k, a))));
                    if r.is_ok() {
                        ctx.count("unwinding_predicate_not_called", 1);
                    }
                    ctx.class("op:replace_if-with-unwinding-predicate");
                    false
                } else {
                    let f = pred::<T>(k, a);
                    let fire = f(model[s].1);
                    table.replace_if(h, T::of(v), pred::<T>(k, a));
                    fire
                };
                if fire {
                    if model[s].0 != h {
                        overwrites += 1;
                    }
                    model[s] = (h, T::of(v));
                    runs.remove(&s);
                } else {
                    refused += 1;
                    let r = runs.entry(s).or_insert(0);
                    *r += 1;
                    longest_run = longest_run.max(*r);
                }
                touched.push(h);
            }
            Op::Get(h) => {
                touched.push(h);
            }
        }
        // every operation is followed by a lookup of its hash
        let h = *touched.last().unwrap();
        let want = if model[slot(h)].0 == h { Some(model[slot(h)].1) } else { None };
        let got = table.get(h);
        if got.map(|x| x.bits()) != want.map(|x| x.bits()) {
            return ctx.fail(
                "cache:get",
                format!("after op #{} get({:#x}) = {:?}, model says {:?} (size {})", i, h, got, want, size),
                case(),
            );
        }
    }
    // final scan: every touched hash, every slot's stored hash, and a probe of every small slot
    let mut probes = touched.clone();
    probes.extend(model.iter().map(|e| e.0));
    for s in 0..size.min(64) {
        probes.push(s as u64);
        probes.push(s as u64 | 1u64 << 63);
    }
    for h in probes {
        let want = if model[slot(h)].0 == h { Some(model[slot(h)].1) } else { None };
        let got = table.get(h);
        if got.map(|x| x.bits()) != want.map(|x| x.bits()) {
            return ctx.fail("cache:get", format!("final scan: get({:#x}) = {:?}, model says {:?} (size {})", h, got, want, size), case());
        }
    }
    if overwrites > 0 {
        ctx.class("program:collision-overwrite");
    }
    if refused > 0 {
        ctx.class("program:refused-replace_if");
    }
    if longest_run >= 16 {
        ctx.class(if longest_run >= 64 { "program:>=64-consecutive-refusals-on-one-slot" } else { "program:16-63-consecutive-refusals-on-one-slot" });
    }
    if overwrites > 0 && refused > 0 {
        ctx.nontrivial(fp(&format!("{:?}", p)));
    }
    Ok(())
}

pub fn check_program(ctx: &mut Ctx, p: &Program) -> Result<(), Violation> {
    ctx.eval();
    ctx.set_case(p.to_json());
    ctx.class(&format!("size:2^{}", p.log2));
    ctx.sample(|| p.to_json());
    ctx.class(&format!("entry:{}", TYPES[p.ty as usize % TYPES.len()]));
    match p.ty % 8 {
        0 => run_typed::<u8>(ctx, p),
        1 => run_typed::<u32>(ctx, p),
        2 => run_typed::<Pair>(ctx, p),
        3 => run_typed::<Coarse>(ctx, p),
        4 => run_typed::<f64>(ctx, p),
        5 => run_typed::<Wide>(ctx, p),
        6 => run_typed::<Tri>(ctx, p),
        _ => run_typed::<Big>(ctx, p),
    }
}

pub fn check_sizes(ctx: &mut Ctx) -> Result<(), Violation> {
    let mut invalid: Vec<usize> = vec![0, 3, 5, 6, 7, 9, 10, 12, 15, 17, 100, 1000, 65535, 65537, usize::MAX, usize::MAX - 1, (1 << 40) + 1, 3 << 20];
    for k in 2..40 {
        invalid.push((1usize << k) + 1);
        invalid.push((1usize << k) - 1);
    }
    invalid.retain(|s| s.count_ones() != 1);
    for s in invalid {
        ctx.eval();
        ctx.set_case(json!({"new_size": s}));
        ctx.class("size:invalid");
        ctx.nontrivial(fp(&("invalid", s)));
        let r = guarded(|| {
            let t: CacheTable<u8> = CacheTable::new(s, 0);
            t.get(0)
        });
        if r.is_ok() {
            ctx.fail("cache:new-accepts-non-power-of-two", format!("CacheTable::new({}) did not panic", s), json!({"new_size": s}))?;
        }
    }
    for k in 0..=20 {
        ctx.eval();
        let s = 1usize << k;
        ctx.set_case(json!({"new_size": s}));
        let r = guarded(|| {
            let t: CacheTable<u32> = CacheTable::new(s, 7);
            (t.get(0), t.get(s as u64), t.get(1))
        });
        match r {
            Err(e) => ctx.fail("cache:new-panics-on-power-of-two", format!("CacheTable::new({}) panicked: {}", s, e), json!({"new_size": s}))?,
            Ok(g) => {
                // untouched slots hold the default under hash 0
                let want1 = if s == 1 { None } else { None };
                if g.0 != Some(7) || g.1.is_some() || g.2 != want1 {
                    ctx.fail("cache:fresh-table", format!("fresh table of size {}: get(0)={:?} get(size)={:?} get(1)={:?}", s, g.0, g.1, g.2), json!({"new_size": s}))?;
                }
            }
        }
    }
    Ok(())
}

pub fn program_strategy(max_log2: u8, max_ops: usize) -> impl Strategy<Value = Program> {
    let op = (0u8..3, any::<u64>(), 0u8..8, any::<u32>(), any::<u8>(), any::<u32>());
    // small tables most of the time (collisions are the point); large ones are expensive to
    // allocate twice per program and get one program in sixteen
    let small = max_log2.min(10);
    let log2s = prop_oneof![15 => 0u8..=small, 1 => small..=max_log2];
    (log2s, 0u8..8, prop_oneof![Just(0u32), any::<u32>()], proptest::collection::vec(op, 0..max_ops), 0u8..8).prop_map(|(log2, ty, default, raw, temper)| {
        let size = 1u64 << log2;
        // the temper of a program: an even mix of operations (half of the programs), or long runs
        // of one kind on one or two slots - conditional writes that are mostly refused, probes, or
        // unconditional writes - as a search that keeps hitting the same entry produces them
        let pool = match temper {
            4 | 5 => 1 + (default as u64 % 2),
            6 | 7 => 2,
            _ => 4,
        };
        // a small pool of slots so that collisions are the norm
        let ops = raw
            .into_iter()
            .map(|(kind, r, mode, v, pk, pa)| {
                let slot = r % size.min(pool);
                let roll = (r >> 40) % 8;
                let kind = match temper {
                    4 | 5 if roll != 0 => 1,
                    6 if roll > 1 => 2,
                    7 if roll > 1 => 0,
                    _ => kind,
                };
                // in the conditional-write temper most predicates refuse
                let pk = if matches!(temper, 4 | 5) && roll > 2 && pk % 16 != 15 { [3u8, 1, 3, 0][(pk % 4) as usize] } else { pk };
                let h = match mode {
                    0 => slot,
                    1 => slot | (r >> 8) << log2,
                    2 => slot | ((r >> 32) << 32).max(1 << 32),
                    3 => 0,
                    4 => u64::MAX,
                    5 => slot | 1u64 << 63,
                    6 => (r % 3) * size + slot,
                    _ => r,
                };
                // small value domain so that predicates fire and refuse
                let v = if pk % 2 == 0 { v % 8 } else { v };
                let pa = if pk % 2 == 0 { pa % 8 } else { pa };
                // predicate kinds 0-3 as drawn; one conditional write in sixteen has an unwinding predicate
                let pk = if pk % 16 == 15 { 4 } else { pk % 4 };
                match kind {
                    0 => Op::Add(h, v),
                    1 => Op::ReplaceIf(h, v, pk, pa),
                    _ => Op::Get(h),
                }
            })
            .collect();
        Program { log2, ty, default, ops }
    })
}

/// Large tables (2^21 and 2^22 entries - beyond what the generated programs allocate twice per
/// case): hashes that agree in their low 12 / 16 / 20 / 21 bits and differ above, against a sparse
/// model (slot = hash mod size).  One table per call; only the library's table is allocated.
pub fn check_large_table(ctx: &mut Ctx, log2: u8, seed: u64) -> Result<(), Violation> {
    ctx.eval();
    let size = 1usize << log2;
    let case = || json!({"large_table_log2": log2, "seed": seed});
    ctx.set_case(case());
    ctx.class(&format!("size:large-2^{}", log2));
    let mut table: CacheTable<u32> = match guarded(|| CacheTable::new(size, 0u32)) {
        Ok(t) => t,
        Err(e) => return ctx.fail("cache:new-panics-on-power-of-two", format!("CacheTable::new(2^{}) panicked: {}", log2, e), case()),
    };
    let mut model: std::collections::HashMap<usize, (u64, u32)> = Default::default();
    let mut x = seed | 1;
    let mut next = || {
        // xorshift: deterministic in the seed
        x ^= x << 13;
        x ^= x >> 7;
        x ^= x << 17;
        x
    };
    let mut touched: Vec<u64> = vec![];
    for step in 0..6000u32 {
        let r = next();
        let low_bits = [12u32, 16, 20, 21, 22, 8][(r % 6) as usize];
        let low = (r >> 8) & ((1u64 << low_bits) - 1) & 0xFFF; // a small pool of low parts
        let high = (next() % 8) << low_bits.max(12);
        let h = match r % 11 {
            0 => low,
            1 => low | 1u64 << 63,
            _ => low | high,
        };
        let v = (next() % 8) as u32;
        let s = (h as usize) & (size - 1);
        let cur = *model.get(&s).unwrap_or(&(0u64, 0u32));
        match next() % 3 {
            0 => {
                table.add(h, v);
                model.insert(s, (h, v));
            }
            1 => {
                let t = (next() % 8) as u32;
                table.replace_if(h, v, |old| old < t);
                if cur.1 < t {
                    model.insert(s, (h, v));
                }
            }
            _ => {}
        }
        touched.push(h);
        // the hash just used, and an earlier one
        for q in [h, touched[(next() as usize) % touched.len()]] {
            let qs = (q as usize) & (size - 1);
            let m = *model.get(&qs).unwrap_or(&(0u64, 0u32));
            let want = if m.0 == q { Some(m.1) } else { None };
            let got = table.get(q);
            if got != want {
                return ctx.fail("cache:get", format!("table of 2^{} entries, step {}: get({:#x}) = {:?}, model says {:?}", log2, step, q, got, want), case());
            }
        }
    }
    ctx.nontrivial(fp(&("large", log2, seed)));
    Ok(())
}

pub fn run(cfg: &Cfg) -> i32 {
    let report = engine::run_shards(cfg, |shard, ctx, seedf| {
        if shard == 0 {
            engine::run_one(ctx, check_sizes)?;
        }
        // a few large tables (four shards in quick, all in thorough; 2^21 and 2^22 entries)
        if shard < cfg.tier.pick(4usize, 16usize) {
            for log2 in [21u8, 22u8] {
                engine::run_one(ctx, |ctx| check_large_table(ctx, log2, seedf(7) ^ (shard as u64 * 0x9E37) ^ log2 as u64))?;
            }
        }
        let max_log2 = cfg.tier.pick(16u8, 20u8);
        let strat = program_strategy(max_log2, 400);
        engine::pbt(ctx, seedf(1), cfg.per_shard(1_200_000, 16_000_000), &strat, |ctx, p: &Program| check_program(ctx, p))?;
        Ok(())
    });
    engine::finish(
        report,
        EvidenceSpec {
            rule: "cases = programs of 0-400 add / replace_if / get operations over tables of size 2^0..2^16 (2^20 thorough) with entry types u8, u32, a Copy struct, a struct whose == / ordering look at one field only, f64 (-0.0 and two NaN bit patterns among the values) and three entries wider than a word (16, 12 and 40 bytes: slots of 24, 24 and 48 bytes): values are compared bit for bit; hashes are drawn to collide (same slot with different high bits, multiples of the size, bits above 32 or bit 63 only, 0, u64::MAX) and predicates (old<arg, old==arg, true, false) over a small value domain; half of the programs mix the operations evenly, the others are long runs of mostly refused conditional writes, of probes or of unconditional writes on one or two slots; after every operation and in a final scan of all touched hashes, stored hashes and slot probes, get() is compared with a vector model (slot = hash mod size, initial content (0, default)); plus a few tables of 2^21 and 2^22 entries driven with hashes that agree in their low 8-22 bits against a sparse model; plus CacheTable::new on 90+ non-power-of-two sizes (must panic) and on 2^0..2^20 (must not). evaluations = programs + sizes. Non-trivial = program with at least one collision overwrite and one refused replace_if; distinct = program fingerprints.".into(),
            assumptions: vec!["out-of-bounds accesses are observed through the unsafe-precondition checks of get_unchecked in the `checked` profile (abort -> fatal-signal handler -> violation) and through the libFuzzer+ASan target cache_prog in the thorough tier".into()],
            trusted_base: vec!["harness/src/props/c19.rs vector model".into(), "proptest 1.11".into()],
            exhaustive: None,
            extra: json!({}),
        },
    )
}

pub fn replay(ctx: &mut Ctx, case: &Value) -> Result<(), Violation> {
    if case.get("new_size").is_some() {
        return check_sizes(ctx);
    }
    if let Some(l) = case.get("large_table_log2").and_then(|x| x.as_u64()) {
        return check_large_table(ctx, l as u8, case.get("seed").and_then(|x| x.as_u64()).unwrap_or(1));
    }
    let p = Program::from_json(case).ok_or_else(|| ctx.violation("INFRA", "bad C19 case".into(), Value::Null))?;
    check_program(ctx, &p)
}
