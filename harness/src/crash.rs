//! Fatal-signal attribution.  The library is full of `get_unchecked` / `push_unchecked`; in the
//! `checked` profile an out-of-bounds access trips an unsafe-precondition check or a debug
//! assertion that aborts the process instead of unwinding.  A handler for SIGABRT / SIGSEGV /
//! SIGBUS / SIGILL / SIGFPE writes the case the crashing shard was executing as a replay file,
//! prints the VIOLATION line and exits 1.  A crash outside any case (or SIGKILL from the OOM
//! killer, which cannot be caught) stays inconclusive.

use std::sync::atomic::{AtomicI64, AtomicUsize, Ordering};

const SLOTS: usize = 64;
const CAP: usize = 16384;

static mut BUFS: [[u8; CAP]; SLOTS] = [[0; CAP]; SLOTS];
static LENS: [AtomicUsize; SLOTS] = [const { AtomicUsize::new(0) }; SLOTS];
static TIDS: [AtomicI64; SLOTS] = [const { AtomicI64::new(-1) }; SLOTS];
static mut PATH: [u8; 512] = [0; 512];
static mut HEAD: [u8; 512] = [0; 512];
static HEAD_LEN: AtomicUsize = AtomicUsize::new(0);
static mut LINE: [u8; 768] = [0; 768];
static LINE_LEN: AtomicUsize = AtomicUsize::new(0);
static mut INCONCLUSIVE: [u8; 256] = [0; 256];
static INC_LEN: AtomicUsize = AtomicUsize::new(0);

thread_local! {
    static SLOT: std::cell::Cell<usize> = const { std::cell::Cell::new(usize::MAX) };
}

fn gettid() -> i64 {
    unsafe { libc::syscall(libc::SYS_gettid) as i64 }
}

/// Called by each shard thread (and by the main thread for replays).
pub fn register(slot: usize) {
    let slot = slot % SLOTS;
    TIDS[slot].store(gettid(), Ordering::SeqCst);
    LENS[slot].store(0, Ordering::SeqCst);
    SLOT.with(|s| s.set(slot));
}

/// Record the case the current thread is about to execute.
pub fn set_case(text: &str) {
    let slot = SLOT.with(|s| s.get());
    if slot == usize::MAX {
        return;
    }
    LENS[slot].store(0, Ordering::SeqCst);
    let bytes = text.as_bytes();
    if bytes.len() >= CAP {
        // too long to keep verbatim: keep a JSON string with the head of it
        let head: String = text.chars().take(CAP / 8).collect();
        let s = serde_json::to_string(&format!("(case too long, truncated) {}", head)).unwrap_or_else(|_| "null".into());
        let b = s.as_bytes();
        let n = b.len().min(CAP);
        unsafe {
            let p = std::ptr::addr_of_mut!(BUFS[slot]) as *mut u8;
            std::ptr::copy_nonoverlapping(b.as_ptr(), p, n);
        }
        LENS[slot].store(n, Ordering::SeqCst);
        return;
    }
    unsafe {
        let p = std::ptr::addr_of_mut!(BUFS[slot]) as *mut u8;
        std::ptr::copy_nonoverlapping(bytes.as_ptr(), p, bytes.len());
    }
    LENS[slot].store(bytes.len(), Ordering::SeqCst);
}
pub fn clear_case() {
    let slot = SLOT.with(|s| s.get());
    if slot != usize::MAX {
        LENS[slot].store(0, Ordering::SeqCst);
    }
}

unsafe fn wr(fd: i32, p: *const u8, n: usize) {
    let mut off = 0;
    while off < n {
        let r = libc::write(fd, p.add(off) as *const libc::c_void, n - off);
        if r <= 0 {
            break;
        }
        off += r as usize;
    }
}

static HANDLING: AtomicUsize = AtomicUsize::new(0);

extern "C" fn handler(_sig: i32) {
    unsafe {
        // several shard threads can hit the same defect at the same moment: the first one
        // reports and ends the process, the others wait for that to happen
        if HANDLING.fetch_add(1, Ordering::SeqCst) != 0 {
            loop {
                libc::sleep(1);
            }
        }
        let tid = gettid();
        let mut slot = usize::MAX;
        for i in 0..SLOTS {
            if TIDS[i].load(Ordering::SeqCst) == tid {
                slot = i;
                break;
            }
        }
        let n = if slot != usize::MAX { LENS[slot].load(Ordering::SeqCst) } else { 0 };
        if n == 0 {
            wr(2, std::ptr::addr_of!(INCONCLUSIVE) as *const u8, INC_LEN.load(Ordering::SeqCst));
            libc::_exit(2);
        }
        let fd = libc::open(std::ptr::addr_of!(PATH) as *const libc::c_char, libc::O_WRONLY | libc::O_CREAT | libc::O_TRUNC, 0o644);
        if fd >= 0 {
            wr(fd, std::ptr::addr_of!(HEAD) as *const u8, HEAD_LEN.load(Ordering::SeqCst));
            wr(fd, std::ptr::addr_of!(BUFS[slot]) as *const u8, n);
            wr(fd, b"}\n".as_ptr(), 2);
            libc::close(fd);
        }
        wr(1, std::ptr::addr_of!(LINE) as *const u8, LINE_LEN.load(Ordering::SeqCst));
        libc::_exit(1);
    }
}

fn fill(dst: *mut u8, cap: usize, s: &str) -> usize {
    let b = s.as_bytes();
    let n = b.len().min(cap - 1);
    unsafe {
        std::ptr::copy_nonoverlapping(b.as_ptr(), dst, n);
        *dst.add(n) = 0;
    }
    n
}

pub fn install(root: &str, prop: &str) {
    let dir = format!("{}/replays/{}", root, prop);
    let _ = std::fs::create_dir_all(&dir);
    let path = format!("{}/crash-{}.json", dir, std::process::id());
    let head = format!(
        "{{\"property\":\"{}\",\"signature\":\"crash:fatal-signal\",\"what\":\"the process was killed by a fatal signal (abort from an unsafe-precondition check or debug assertion, segmentation fault, ...) while the library executed this case\",\"case\":",
        prop
    );
    let line = format!("VIOLATION property={} replay={}\n  signature=crash:fatal-signal :: fatal signal while the library executed the case in the replay file\n", prop, path);
    let inc = format!("INCONCLUSIVE property={} fatal signal outside any case\n", prop);
    unsafe {
        fill(std::ptr::addr_of_mut!(PATH) as *mut u8, 512, &path);
        HEAD_LEN.store(fill(std::ptr::addr_of_mut!(HEAD) as *mut u8, 512, &head), Ordering::SeqCst);
        LINE_LEN.store(fill(std::ptr::addr_of_mut!(LINE) as *mut u8, 768, &line), Ordering::SeqCst);
        INC_LEN.store(fill(std::ptr::addr_of_mut!(INCONCLUSIVE) as *mut u8, 256, &inc), Ordering::SeqCst);
        for sig in [libc::SIGABRT, libc::SIGSEGV, libc::SIGBUS, libc::SIGILL, libc::SIGFPE] {
            let mut sa: libc::sigaction = std::mem::zeroed();
            sa.sa_sigaction = handler as usize;
            sa.sa_flags = libc::SA_ONSTACK;
            libc::sigemptyset(&mut sa.sa_mask);
            libc::sigaction(sig, &sa, std::ptr::null_mut());
        }
    }
}
