pub mod bridge;
pub mod engine;
pub mod gen;
pub mod props;
pub mod refmodel;
