pub mod bridge;
pub mod crash;
pub mod engine;
pub mod fuzzing;
pub mod gamemodel;
pub mod gen;
pub mod props;
pub mod refmodel;
