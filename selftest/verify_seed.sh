#!/usr/bin/env bash
# verify_seed.sh <worktree>: confirm a seeded change compiles, passes the 36 unit tests,
# and that its demo fails with the patch and passes without it.  Leaves the patch applied.
set -u
WT="$1"
cd "$WT" || exit 2
P=SEEDED/patch.diff
[ -s "$P" ] || { echo "no patch"; exit 2; }
git checkout -q -- src 2>/dev/null
cp -f SEEDED/demo.rs tests/seeded_demo.rs 2>/dev/null
without=$(cargo test --offline --test seeded_demo 2>&1 | grep -E "^test result" | tail -1)
git apply "$P" || { echo "patch does not apply"; exit 2; }
build=$(cargo build --offline 2>&1 | grep -cE "^error")
unit=$(cargo test --offline --lib 2>&1 | grep -E "^test result" | tail -1)
doc=$(cargo test --offline --doc 2>&1 | grep -E "^test result" | tail -1)
with=$(cargo test --offline --test seeded_demo 2>&1 | grep -E "^test result" | tail -1)
echo "build_errors=$build"
echo "unit: $unit"
echo "doc:  $doc"
echo "demo without patch: $without"
echo "demo with patch:    $with"
