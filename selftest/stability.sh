#!/usr/bin/env bash
# stability.sh <seed>...: run every quick check on the unchanged tree under the given seeds;
# any non-zero exit is reported.  Appends to selftest/stability.log
set -u
cd /verif
for seed in "$@"; do
  for id in C01 C02 C03 C04 C05 C06 C07 C08 C09 C10 C11 C12 C13 C14 C15 C16 C17 C18 C19 C20; do
    out=$(VERIF_SEED=$seed ./check $id quick 2>&1); rc=$?
    line=$(echo "$out" | grep -E "^property=" | tail -1)
    echo "seed=$seed $id exit=$rc $line" >> selftest/stability.log
    if [ $rc -ne 0 ]; then echo "$out" | grep -E "VIOLATION|signature|INCONCLUSIVE" >> selftest/stability.log; fi
  done
done
