#!/usr/bin/env bash
# Reverse self-test: with each "fix:" commit reverted (working tree only) the matching check must
# report a violation; afterwards /repo is restored.  Usage: selftest/reverse_fixes.sh [ID...]
set -u
cd /verif
declare -A FIX=( [cef16f0]=C06 [8211910]=C07 [aebd4ed]=C11 [6a9dea3]=C12 [775a1ae]=C12 [7a659c8]=C14 [21866c6]=C14 [b36ae53]=C14 [7e5df76]=C12 )
for c in cef16f0 8211910 aebd4ed 6a9dea3 775a1ae 7e5df76 7a659c8 21866c6 b36ae53; do
  id=${FIX[$c]}
  if [ $# -gt 0 ] && [[ ! " $* " =~ " $id " ]]; then continue; fi
  git -C /repo show $c -- src | git -C /repo apply -R || { echo "cannot revert $c"; continue; }
  out=$(VERIF_SCALE=${VERIF_SCALE:-0.3} ./check $id quick 2>&1); rc=$?
  git -C /repo checkout -- .
  sig=$(echo "$out" | grep -m1 "signature=" | sed 's/ ::.*//')
  echo "revert $c ($id): exit=$rc $sig"
done
