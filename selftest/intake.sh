#!/usr/bin/env bash
# intake.sh <seed-id> [worktree-root]: confirm a sub-agent's seeded change in its scratch worktree
# (compiles, 36 unit tests + doc tests pass, demo fails with / passes without the patch), copy it to
# /verif/seeded/<seed-id>/, apply it to /repo, run the quick check of the property it breaks, undo
# it, and record confirmation + detection in meta.json.
set -u
S="$1"; ROOT="${2:-/tmp/seedwt}"; WT="$ROOT/$S"; ID=${S:0:3}
cd /verif
[ -s "$WT/SEEDED/patch.diff" ] || { echo "$S: no patch"; exit 2; }
v=$(selftest/verify_seed.sh "$WT" 2>&1)
echo "$v"
mkdir -p seeded/$S
cp -f "$WT/SEEDED/patch.diff" "$WT/SEEDED/demo.rs" "$WT/SEEDED/meta.json" seeded/$S/
r=$(selftest/try_seed.sh seeded/$S/patch.diff $ID quick 2>&1)
echo "$r"
python3 - "$S" "$v" "$r" <<'PY'
import json,re,sys
s,v,r=sys.argv[1:4]
p=f"/verif/seeded/{s}/meta.json"
m=json.load(open(p))
def g(pat,t):
    x=re.search(pat,t); return x.group(1).strip() if x else None
unit=g(r"unit: (.*)",v); doc=g(r"doc: +(.*)",v); wo=g(r"demo without patch: (.*)",v); wi=g(r"demo with patch: +(.*)",v)
m["confirmed_by_main"]={"compiles": g(r"build_errors=(\d+)",v)=="0","unit_tests":unit,"doc_tests":doc,
  "demo_fails_with_patch": bool(wi and "FAILED" in wi),"demo_passes_without_patch": bool(wo and "ok." in wo),
  "how":"selftest/intake.sh (verify_seed.sh in the agent's scratch worktree)"}
rc=g(r"exit=(\d+)",r); secs=g(r"secs=(\d+)",r); sig=g(r"signature=(\S+)",r)
m["detection"]={"command":f"git -C /repo apply seeded/{s}/patch.diff && ./check {s[:3]} quick ; git -C /repo checkout -- .",
  "result":"exit 1, VIOLATION" if rc=="1" else f"exit {rc} (NOT detected)","signature":sig,"wall_seconds_incl_rebuild":int(secs or 0)}
json.dump(m,open(p,"w"),indent=1)
ok = m["confirmed_by_main"]["compiles"] and unit and "36 passed; 0 failed" in unit and m["confirmed_by_main"]["demo_fails_with_patch"] and m["confirmed_by_main"]["demo_passes_without_patch"]
print(f"SUMMARY {s}: confirmed={bool(ok)} detected={'yes' if rc=='1' else 'NO'} sig={sig} secs={secs}")
PY
