#!/usr/bin/env python3
"""Automatic mutation campaign (sensitivity experiment, not a check).

usage: mutate.py <repo-copy> <verif-dir> <per-file-sample> <seed> [file-filter]

For a deterministic sample of single-token mutants of <repo-copy>/src: apply the mutant, run the
repository's 36 unit tests; if the mutant survives them, run the quick tier of the checks mapped to
the mutated file (in <verif-dir>, whose harness must already point at <repo-copy>) until one
reports a violation.  Results go to <verif-dir>/work/mutants.tsv; undetected survivors are the
interesting output (equivalent mutants or gaps).
"""
import os, random, re, subprocess, sys, time

repo, verif, per_file, seed = sys.argv[1], sys.argv[2], int(sys.argv[3]), int(sys.argv[4])
flt = sys.argv[5] if len(sys.argv) > 5 else ""

CHECKS = {
    "src/board.rs": ["C03", "C02", "C01", "C08", "C18", "C07", "C04", "C05", "C09", "C17"],
    "src/board_builder.rs": ["C06", "C07"],
    "src/movegen/movegen.rs": ["C14", "C01", "C04"],
    "src/movegen/piece_type.rs": ["C01", "C05", "C17", "C02"],
    "src/game.rs": ["C10", "C11", "C04"],
    "src/chess_move.rs": ["C12", "C13", "C10"],
    "src/castle_rights.rs": ["C02", "C01", "C06", "C05", "C17", "C07"],
    "src/cache_table.rs": ["C19"],
    "src/bitboard.rs": ["C20", "C16", "C01"],
    "src/square.rs": ["C16", "C13", "C01"],
    "src/file.rs": ["C16", "C13", "C06"],
    "src/rank.rs": ["C16", "C13", "C06"],
    "src/color.rs": ["C16", "C17", "C01"],
    "src/piece.rs": ["C13", "C06", "C01"],
    "src/magic.rs": ["C15", "C16", "C01"],
    "src/zobrist.rs": ["C09", "C08"],
    "src/gen_tables/zobrist.rs": ["C09", "C08"],
    "src/gen_tables/between.rs": ["C16", "C01"],
    "src/gen_tables/lines.rs": ["C16", "C01"],
    "src/gen_tables/rays.rs": ["C15", "C16"],
    "src/gen_tables/king.rs": ["C16", "C01", "C02"],
    "src/gen_tables/knights.rs": ["C16", "C01"],
    "src/gen_tables/pawns.rs": ["C16", "C01", "C02"],
    "src/gen_tables/ranks_files.rs": ["C16", "C02", "C01"],
    "src/gen_tables/magic.rs": ["C15", "C01"],
    "src/gen_tables/bmis.rs": ["C15"],
}

SWAPS = [
    (r" & ", " | "), (r" \| ", " & "), (r" \^ ", " | "), (r" \^ ", " & "),
    (r" == ", " != "), (r" != ", " == "), (r" >= ", " > "), (r" <= ", " < "), (r" > ", " >= "), (r" < ", " <= "),
    (r" && ", " || "), (r" \|\| ", " && "),
    (r" \+ 1\b", " + 2"), (r" \+ 1\b", ""), (r" - 1\b", ""), (r" - 1\b", " - 2"),
    (r"\^= ", "|= "), (r"\^= ", "&= "), (r"&= ", "|= "), (r"\|= ", "^= "),
    (r"!self\.side_to_move", "self.side_to_move"), (r"!result\.side_to_move", "result.side_to_move"),
    (r"!board\.side_to_move\(\)", "board.side_to_move()"), (r"!color\b", "color"), (r"\(!self\.side_to_move\)", "(self.side_to_move)"),
    (r"Color::White", "Color::Black"), (r"Color::Black", "Color::White"),
    (r"File::A\b", "File::B"), (r"File::H\b", "File::G"), (r"File::E\b", "File::D"), (r"File::D\b", "File::C"), (r"File::F\b", "File::G"), (r"File::G\b", "File::F"), (r"File::C\b", "File::D"),
    (r"Rank::First", "Rank::Second"), (r"Rank::Eighth", "Rank::Seventh"), (r"Rank::Second", "Rank::Third"), (r"Rank::Seventh", "Rank::Sixth"), (r"Rank::Fourth", "Rank::Fifth"), (r"Rank::Fifth", "Rank::Fourth"),
    (r"Piece::Bishop", "Piece::Rook"), (r"Piece::Rook", "Piece::Bishop"), (r"Piece::Knight", "Piece::Bishop"), (r"Piece::Queen", "Piece::Rook"), (r"Piece::Pawn", "Piece::Knight"), (r"Piece::King", "Piece::Queen"),
    (r"\bEMPTY\b", "!EMPTY"),
    (r"\.uforward\(", ".ubackward("), (r"\.ubackward\(", ".uforward("), (r"\.uright\(\)", ".uleft()"), (r"\.uleft\(\)", ".uright()"),
    (r"\.up\(\)", ".down()"), (r"\.down\(\)", ".up()"), (r"\.left\(\)", ".right()"), (r"\.right\(\)", ".left()"),
    (r"has_kingside", "has_queenside"), (r"has_queenside", "has_kingside"), (r"kingside_squares", "queenside_squares"),
    (r"to_my_backrank", "to_their_backrank"), (r"to_seventh_rank", "to_second_rank"), (r"to_fourth_rank", "to_second_rank"),
    (r"get_rook_moves", "get_bishop_moves"), (r"get_bishop_moves", "get_rook_moves"), (r"get_rook_rays", "get_bishop_rays"), (r"get_bishop_rays", "get_rook_rays"),
    (r"get_knight_moves", "get_king_moves"), (r"get_king_moves", "get_knight_moves"),
    (r"\bpinned\b", "checkers"), (r"popcnt\(\) == 1", "popcnt() <= 1"), (r"popcnt\(\) == 1", "popcnt() >= 1"),
    (r"(?<![.\w])100\b(?!\.)", "101"), (r"(?<![.\w])100\b(?!\.)", "99"), (r"(?<![.\w])16\b(?!\.)", "15"), (r"(?<![.\w])18\b(?!\.)", "17"), (r"(?<![.\w])63\b(?!\.)", "31"), (r"(?<![.\w])7\b(?!\.)", "6"), (r"(?<![.\w])8\b(?!\.)", "7"), (r"(?<![.\w])3\b(?!\.)", "2"), (r"(?<![.\w])2\b(?!\.)", "3"), (r"(?<![.\w])1\b(?!\.)", "0"), (r"(?<![.\w])0\b(?!\.)", "1"), (r"(?<![.\w])5\b(?!\.)", "4"), (r"(?<![.\w])4\b(?!\.)", "5"),
    (r"\btrue\b", "false"), (r"\bfalse\b", "true"),
    (r"\bbreak;", ""), (r"\bcontinue;", ""), (r"return true;", "return false;"), (r"return false;", "return true;"),
    (r"Some\(false\)", "Some(true)"), (r"\.is_some\(\)", ".is_none()"), (r"\.is_none\(\)", ".is_some()"),
]
DELETE_LINE = re.compile(r"^\s*(result|self|moves|board|fen)\b.*(\^=|&=|\|=|\.xor\(|remove_|\.push|= )[^{}]*;\s*$")


def code_lines(path):
    out = []
    text = open(path).read().split("\n")
    for i, l in enumerate(text):
        if re.match(r"^#\[(cfg\(test\)|test)\]", l):
            break
        st = l.strip()
        if not st or st.startswith("//") or st.startswith("#[") or st.startswith("use ") or st.startswith("pub use"):
            continue
        out.append(i)
    return text, out


def enumerate_mutants(rel):
    text, idxs = code_lines(os.path.join(repo, rel))
    muts = []
    for i in idxs:
        l = text[i]
        code = l.split("//")[0]
        for pat, rep in SWAPS:
            for m in re.finditer(pat, code):
                new = code[: m.start()] + rep + code[m.end():]
                if new != code:
                    muts.append((rel, i, l, new + l[len(code):], f"{pat} -> {rep!r}"))
        if DELETE_LINE.match(l):
            muts.append((rel, i, l, "", "delete statement"))
    return muts


def run(cmd, cwd, timeout):
    """Run a shell command in its own process group; kill the whole group on timeout."""
    import signal
    p = subprocess.Popen(cmd, cwd=cwd, shell=True, stdout=subprocess.PIPE, stderr=subprocess.STDOUT, text=True, preexec_fn=os.setsid)
    try:
        o, _ = p.communicate(timeout=timeout)
        return p.returncode, o
    except subprocess.TimeoutExpired:
        try:
            os.killpg(os.getpgid(p.pid), signal.SIGKILL)
        except ProcessLookupError:
            pass
        p.communicate()
        return 124, "timeout"


def main():
    rng = random.Random(seed)
    os.makedirs(os.path.join(verif, "work"), exist_ok=True)
    outp = os.path.join(verif, "work", "mutants.tsv")
    fresh = not os.path.exists(outp)
    out = open(outp, "a")
    if fresh:
        out.write("file\tline\tmutation\tsuite\tdetected_by\tsignature\tseconds\toriginal\tmutated\n")
    for rel in sorted(CHECKS):
        if flt and flt not in rel:
            continue
        muts = enumerate_mutants(rel)
        rng.shuffle(muts)
        # at most one mutant per (line, operator family) and per_file overall
        seen, sample = set(), []
        for m in muts:
            key = (m[1], m[4])
            if key in seen:
                continue
            seen.add(key)
            sample.append(m)
            if len(sample) >= per_file:
                break
        for rel, i, old, new, what in sample:
            path = os.path.join(repo, rel)
            text = open(path).read().split("\n")
            assert text[i] == old
            text[i] = new
            open(path, "w").write("\n".join(text))
            t0 = time.time()
            rc, o = run("cargo test --offline --lib 2>&1 | tail -40", repo, 150)
            passed = "36 passed; 0 failed" in o
            if not passed:
                suite = "killed(hang)" if rc == 124 else "killed" if ("test result: FAILED" in o or "panicked" in o) else ("no-compile" if "error" in o else "killed")
                det, sig = "-", "-"
            else:
                suite = "survived"
                det, sig = "NONE", "-"
                for cid in CHECKS[rel]:
                    rc, o = run(f"VERIF_WATCHDOG_S=600 ./check {cid} quick 2>&1 | tail -30", verif, 900)
                    if rc == 124 or "watchdog" in o:
                        det, sig = cid, "hang(inconclusive)"
                        break
                    if "VIOLATION" in o:
                        det = cid
                        m = re.search(r"signature=(\S+)", o)
                        sig = m.group(1) if m else "?"
                        break
                    if "INCONCLUSIVE build failed" in o:
                        det, sig = "BUILD", "harness does not build against the mutant"
                        break
            secs = int(time.time() - t0)
            out.write(f"{rel}\t{i+1}\t{what}\t{suite}\t{det}\t{sig}\t{secs}\t{old.strip()}\t{new.strip()}\n")
            out.flush()
            print(rel, i + 1, what, suite, det, sig, secs, flush=True)
            text[i] = old
            open(path, "w").write("\n".join(text))
    subprocess.run("git checkout -- src", cwd=repo, shell=True)


main()
