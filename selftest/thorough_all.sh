#!/usr/bin/env bash
# thorough_all.sh [repo-path]: run every thorough check in turn (optionally against a copy of the
# repository: the harness and fuzz crates are re-pointed at it) and print one line per check.
set -u
HERE="$(cd "$(dirname "${BASH_SOURCE[0]}")/.." && pwd)"
cd "$HERE"
R="${1:-/repo}"
if [ "$R" != /repo ]; then
  sed -i "s#path = \"/repo\"#path = \"$R\"#" harness/Cargo.toml fuzz/Cargo.toml
fi
for id in C16 C20 C13 C15 C19 C18 C17 C06 C02 C03 C01 C14 C10 C11 C12 C07 C05 C08 C09 C04; do
  s=$(date +%s)
  out=$(./check $id thorough 2>&1); rc=$?
  e=$(date +%s)
  echo "THOROUGH $id exit=$rc secs=$((e-s)) $(echo "$out" | grep -E '^property=' | tail -1)"
  if [ $rc -ne 0 ]; then echo "$out" | grep -E "VIOLATION|signature|INCONCLUSIVE" | head -5; fi
done
