#!/usr/bin/env python3
"""cost_table.py: rewrite the 'quick wall' and 'quick evaluations' columns of DESIGN.md section 10
from the evidence files of the last quick run on the unchanged tree (the 'thorough' column and the
unit of the evaluations column are kept as written)."""
import json, re

D = '/verif/DESIGN.md'
s = open(D).read()
head, sep, tail = s.partition('## 10. Cost summary')
assert sep


def human(n):
    if n >= 1e9:
        return f"{n/1e9:.1f} G"
    if n >= 1e6:
        return f"{n/1e6:.1f} M" if n < 1e7 else f"{n/1e6:.0f} M"
    if n >= 1e3:
        return f"{n/1e3:.0f} k"
    return str(n)


def row(m):
    pid = m.group(1)
    e = json.load(open(f'/verif/evidence/{pid}.json'))
    if e.get('tier') != 'quick':
        return m.group(0)
    ev = e['coverage'].get('evaluations', 0)
    wall = e.get('wall_s', 0)
    old_eval = m.group(3).strip()
    unit = re.sub(r'^[0-9.x ]+[kMG]?\s*', '', old_eval)
    extra = ''
    if pid == 'C15':
        other = e['coverage'].get('extra', {}).get('other_build') or {}
        extra = ' (each of two builds)'
    return f"| {pid} | {wall:.0f}{' (second build; both run)' if pid == 'C15' else ''} | {human(ev)} {unit}{extra} | {m.group(4).strip()} |"


tail = re.sub(r'^\| (C\d\d) \| ([^|]*) \| ([^|]*) \| ([^|]*) \|$', row, tail, flags=re.M)
open(D, 'w').write(head + sep + tail)
print('section 10 rewritten')
