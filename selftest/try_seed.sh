#!/usr/bin/env bash
# try_seed.sh <patch.diff> <ID> [tier]: apply a seeded change to /repo, run the check, undo it.
set -u
P="$(readlink -f "$1")"; ID="$2"; TIER="${3:-quick}"
# VERIF_DIR / REPO_DIR: run against scratch copies (harness re-pointed at REPO_DIR) instead of /verif and /repo
V="${VERIF_DIR:-/verif}"; R="${REPO_DIR:-/repo}"
cd "$V"; mkdir -p work
git -C "$R" apply "$P" || { echo "patch does not apply"; exit 2; }
# the evidence file is rewritten by every run: keep the one from the unchanged tree
cp -f evidence/$ID.json work/evidence-$ID.keep 2>/dev/null
start=$(date +%s)
out=$(./check "$ID" "$TIER" 2>&1); rc=$?
end=$(date +%s)
git -C "$R" checkout -- .
cp -f evidence/$ID.json work/evidence-$ID.seeded 2>/dev/null
[ -f work/evidence-$ID.keep ] && mv -f work/evidence-$ID.keep evidence/$ID.json
echo "$out" | grep -E "VIOLATION|signature=|INCONCLUSIVE" | head -4
echo "check=$ID tier=$TIER exit=$rc secs=$((end-start))"
