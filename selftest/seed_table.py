#!/usr/bin/env python3
"""Regenerate the seeded-change table of DESIGN.md (between the SEED-TABLE markers) from seeded/*/meta.json."""
import json, glob, os, re
rows = []
for d in sorted(glob.glob('/verif/seeded/*/')):
    s = os.path.basename(d[:-1])
    m = json.load(open(d + 'meta.json'))
    det = m.get('detection', {})
    def clip(t, n):
        t = ' '.join(str(t).split()).replace('|', '/')
        return t if len(t) <= n else t[:n - 3] + '...'
    first = ' (first missed: ' + clip(det['history'], 150) + ')' if det.get('history') else ''
    rows.append(f"| {s} | {clip(m.get('summary',''), 230)} | {clip(m.get('needs',''), 230)} | `{det.get('signature')}`{first} |")
table = "| seed | change | needs, to manifest | detected as |\n|---|---|---|---|\n" + "\n".join(rows) + "\n"
p = '/verif/DESIGN.md'
t = open(p).read()
t = re.sub(r"<!-- SEED-TABLE-BEGIN -->.*<!-- SEED-TABLE-END -->", lambda _m: "<!-- SEED-TABLE-BEGIN -->\n" + table + "<!-- SEED-TABLE-END -->", t, flags=re.S)
open(p, 'w').write(t)
print(len(rows), "rows")
