#!/usr/bin/env bash
# run_seeds.sh [tier]: apply every kept seeded change to /repo in turn, run the quick check of the
# property it breaks, undo it, and record the outcome in selftest/seed_matrix.tsv
set -u
V="${VERIF_DIR:-/verif}"; R="${REPO_DIR:-/repo}"
cd "$V"
TIER="${1:-quick}"
out=selftest/seed_matrix.tsv
printf "seed\tproperty\tdetected\tsignature\tseconds\tsummary\n" > $out
for d in seeded/*/; do
  s=$(basename $d); id=${s:0:3}
  r=$(selftest/try_seed.sh $d/patch.diff $id $TIER 2>&1)
  rc=$(echo "$r" | grep -o "exit=[0-9]*" | cut -d= -f2)
  secs=$(echo "$r" | grep -o "secs=[0-9]*" | cut -d= -f2)
  sig=$(echo "$r" | grep -m1 -o "signature=[^ ]*" | cut -d= -f2)
  sum=$(python3 -c "import json;print(json.load(open('$d/meta.json')).get('summary','')[:160].replace('\t',' ').replace('\n',' '))")
  det=no; [ "$rc" = 1 ] && det=yes
  printf "%s\t%s\t%s\t%s\t%s\t%s\n" "$s" "$id" "$det" "$sig" "$secs" "$sum" >> $out
  echo "$s $det $sig ${secs}s"
done
git -C "$R" status --short | head -3
